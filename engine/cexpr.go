package main

// Contract expression language: Go expression syntax extended with
//   old(e)  result / resultN  a ==> b  a <==> b
//   forall k in lo..hi :: e     exists k in lo..hi :: e     forall k :: e
// parsed by a small Pratt parser (go/parser cannot parse the extensions).

import (
	"fmt"
	"strconv"
	"strings"
	"unicode"
)

type CExpr interface{ cstr() string }

type (
	CIdent struct{ Name string }
	CInt   struct{ Val string }
	CStr   struct{ Val string }
	CBin   struct {
		Op   string
		L, R CExpr
	}
	CUn struct {
		Op string
		X  CExpr
	}
	CSel struct {
		X    CExpr
		Name string
	}
	CIdx   struct{ X, I CExpr }
	CSlice struct{ X, Lo, Hi CExpr }
	CCall  struct {
		Fn   CExpr
		Args []CExpr
	}
	CQuant struct {
		Forall bool
		Var    string
		Lo, Hi CExpr // nil: unbounded
		Body   CExpr
	}
	COld struct{ X CExpr }
)

func (e *CIdent) cstr() string { return e.Name }
func (e *CInt) cstr() string   { return e.Val }
func (e *CStr) cstr() string   { return strconv.Quote(e.Val) }
func (e *CBin) cstr() string   { return "(" + e.L.cstr() + " " + e.Op + " " + e.R.cstr() + ")" }
func (e *CUn) cstr() string    { return e.Op + e.X.cstr() }
func (e *CSel) cstr() string   { return e.X.cstr() + "." + e.Name }
func (e *CIdx) cstr() string   { return e.X.cstr() + "[" + e.I.cstr() + "]" }
func (e *CSlice) cstr() string {
	lo, hi := "", ""
	if e.Lo != nil {
		lo = e.Lo.cstr()
	}
	if e.Hi != nil {
		hi = e.Hi.cstr()
	}
	return e.X.cstr() + "[" + lo + ":" + hi + "]"
}
func (e *CCall) cstr() string {
	var as []string
	for _, a := range e.Args {
		as = append(as, a.cstr())
	}
	return e.Fn.cstr() + "(" + strings.Join(as, ", ") + ")"
}
func (e *CQuant) cstr() string {
	q := "exists"
	if e.Forall {
		q = "forall"
	}
	if e.Lo != nil {
		return fmt.Sprintf("(%s %s in %s..%s :: %s)", q, e.Var, e.Lo.cstr(), e.Hi.cstr(), e.Body.cstr())
	}
	return fmt.Sprintf("(%s %s :: %s)", q, e.Var, e.Body.cstr())
}
func (e *COld) cstr() string { return "old(" + e.X.cstr() + ")" }

type ctok struct {
	kind string // ident int str char op eof
	val  string
}

func clex(src string) ([]ctok, error) {
	var toks []ctok
	i := 0
	for i < len(src) {
		c := src[i]
		switch {
		case c == ' ' || c == '\t' || c == '\n' || c == '\r':
			i++
		case c == '/' && i+1 < len(src) && src[i+1] == '/':
			// comment to end of line
			for i < len(src) && src[i] != '\n' {
				i++
			}
		case unicode.IsLetter(rune(c)) || c == '_':
			j := i
			for j < len(src) && (unicode.IsLetter(rune(src[j])) || unicode.IsDigit(rune(src[j])) || src[j] == '_') {
				j++
			}
			toks = append(toks, ctok{"ident", src[i:j]})
			i = j
		case c >= '0' && c <= '9':
			j := i
			if c == '0' && j+1 < len(src) && (src[j+1] == 'x' || src[j+1] == 'X') {
				j += 2
				for j < len(src) && strings.ContainsRune("0123456789abcdefABCDEF_", rune(src[j])) {
					j++
				}
			} else {
				for j < len(src) && (src[j] >= '0' && src[j] <= '9' || src[j] == '_') {
					j++
				}
			}
			v, err := strconv.ParseInt(strings.ReplaceAll(src[i:j], "_", ""), 0, 64)
			if err != nil {
				// big
				toks = append(toks, ctok{"int", src[i:j]})
			} else {
				toks = append(toks, ctok{"int", strconv.FormatInt(v, 10)})
			}
			i = j
		case c == '\'':
			j := i + 1
			for j < len(src) && src[j] != '\'' {
				if src[j] == '\\' {
					j++
				}
				j++
			}
			if j >= len(src) {
				return nil, fmt.Errorf("unterminated char literal")
			}
			r, _, _, err := strconv.UnquoteChar(src[i+1:j], '\'')
			if err != nil {
				return nil, err
			}
			toks = append(toks, ctok{"int", strconv.Itoa(int(r))})
			i = j + 1
		case c == '"':
			j := i + 1
			for j < len(src) && src[j] != '"' {
				if src[j] == '\\' {
					j++
				}
				j++
			}
			if j >= len(src) {
				return nil, fmt.Errorf("unterminated string literal")
			}
			s, err := strconv.Unquote(src[i : j+1])
			if err != nil {
				return nil, err
			}
			toks = append(toks, ctok{"str", s})
			i = j + 1
		default:
			ops := []string{"<==>", "==>", "::", "..", "==", "!=", "<=", ">=", "&&", "||", "<<", ">>",
				"+", "-", "*", "/", "%", "<", ">", "!", "(", ")", "[", "]", ".", ",", ":", "&", "|", "^"}
			matched := false
			for _, op := range ops {
				if strings.HasPrefix(src[i:], op) {
					toks = append(toks, ctok{"op", op})
					i += len(op)
					matched = true
					break
				}
			}
			if !matched {
				return nil, fmt.Errorf("unexpected character %q in %q", c, src)
			}
		}
	}
	toks = append(toks, ctok{"eof", ""})
	return toks, nil
}

type cparser struct {
	toks []ctok
	pos  int
	src  string
}

func parseCExpr(src string) (e CExpr, err error) {
	toks, err := clex(src)
	if err != nil {
		return nil, err
	}
	p := &cparser{toks: toks, src: src}
	defer func() {
		if r := recover(); r != nil {
			if pe, ok := r.(cparseErr); ok {
				err = fmt.Errorf("%s (in %q)", string(pe), src)
				return
			}
			panic(r)
		}
	}()
	e = p.expr()
	if p.peek().kind != "eof" {
		p.fail("unexpected token %q", p.peek().val)
	}
	return e, nil
}

type cparseErr string

func (p *cparser) fail(f string, a ...any) { panic(cparseErr(fmt.Sprintf(f, a...))) }
func (p *cparser) peek() ctok              { return p.toks[p.pos] }
func (p *cparser) next() ctok              { t := p.toks[p.pos]; p.pos++; return t }
func (p *cparser) isOp(v string) bool      { t := p.peek(); return t.kind == "op" && t.val == v }
func (p *cparser) accept(v string) bool {
	if p.isOp(v) {
		p.pos++
		return true
	}
	return false
}
func (p *cparser) expect(v string) {
	if !p.accept(v) {
		p.fail("expected %q, found %q", v, p.peek().val)
	}
}

func (p *cparser) expr() CExpr { return p.iff() }

func (p *cparser) iff() CExpr {
	l := p.impl()
	for p.accept("<==>") {
		r := p.impl()
		l = &CBin{"<==>", l, r}
	}
	return l
}

func (p *cparser) impl() CExpr {
	l := p.or()
	if p.accept("==>") {
		r := p.impl()
		return &CBin{"==>", l, r}
	}
	return l
}

func (p *cparser) or() CExpr {
	l := p.and()
	for p.accept("||") {
		l = &CBin{"||", l, p.and()}
	}
	return l
}

func (p *cparser) and() CExpr {
	l := p.cmp()
	for p.accept("&&") {
		l = &CBin{"&&", l, p.cmp()}
	}
	return l
}

func (p *cparser) cmp() CExpr {
	l := p.add()
	for _, op := range []string{"==", "!=", "<=", ">=", "<", ">"} {
		if p.accept(op) {
			return &CBin{op, l, p.add()}
		}
	}
	return l
}

func (p *cparser) add() CExpr {
	l := p.mul()
	for {
		switch {
		case p.accept("+"):
			l = &CBin{"+", l, p.mul()}
		case p.accept("-"):
			l = &CBin{"-", l, p.mul()}
		default:
			return l
		}
	}
}

func (p *cparser) mul() CExpr {
	l := p.unary()
	for {
		switch {
		case p.accept("*"):
			l = &CBin{"*", l, p.unary()}
		case p.accept("/"):
			l = &CBin{"/", l, p.unary()}
		case p.accept("%"):
			l = &CBin{"%", l, p.unary()}
		default:
			return l
		}
	}
}

func (p *cparser) unary() CExpr {
	switch {
	case p.accept("!"):
		return &CUn{"!", p.unary()}
	case p.accept("-"):
		return &CUn{"-", p.unary()}
	case p.accept("*"):
		if p.isOp(")") {
			return &CIdent{"*"} // count(*)
		}
		return &CUn{"*", p.unary()}
	case p.accept("&"):
		return &CUn{"&", p.unary()}
	}
	return p.postfix()
}

func (p *cparser) postfix() CExpr {
	e := p.primary()
	for {
		switch {
		case p.accept("."):
			t := p.next()
			if t.kind != "ident" {
				p.fail("expected field name after '.'")
			}
			e = &CSel{e, t.val}
		case p.accept("["):
			if p.accept(":") {
				hi := p.expr()
				p.expect("]")
				e = &CSlice{e, nil, hi}
				continue
			}
			i := p.expr()
			if p.accept(":") {
				var hi CExpr
				if !p.isOp("]") {
					hi = p.expr()
				}
				p.expect("]")
				e = &CSlice{e, i, hi}
				continue
			}
			p.expect("]")
			e = &CIdx{e, i}
		case p.accept("("):
			var args []CExpr
			for !p.isOp(")") {
				args = append(args, p.expr())
				if !p.accept(",") {
					break
				}
			}
			p.expect(")")
			if id, ok := e.(*CIdent); ok && id.Name == "old" {
				if len(args) != 1 {
					p.fail("old takes one argument")
				}
				e = &COld{args[0]}
			} else {
				e = &CCall{e, args}
			}
		default:
			return e
		}
	}
}

func (p *cparser) primary() CExpr {
	t := p.next()
	switch t.kind {
	case "int":
		return &CInt{t.val}
	case "str":
		return &CStr{t.val}
	case "ident":
		if t.val == "local" && p.isOp("(") {
			// local(name): a program variable whose name is a word of the contract language (exists, result, forall...)
			p.next()
			v := p.next()
			if v.kind != "ident" {
				p.fail("local() needs a variable name")
			}
			p.expect(")")
			return &CIdent{"\x00" + v.val}
		}
		if t.val == "forall" || t.val == "exists" {
			v := p.next()
			if v.kind != "ident" {
				p.fail("expected bound variable")
			}
			q := &CQuant{Forall: t.val == "forall", Var: v.val}
			if p.peek().kind == "ident" && p.peek().val == "in" {
				p.next()
				q.Lo = p.add()
				p.expect("..")
				q.Hi = p.add()
			}
			p.expect("::")
			q.Body = p.expr()
			return q
		}
		return &CIdent{t.val}
	case "op":
		if t.val == "*" && p.isOp(")") {
			return &CIdent{"*"}
		}
		if t.val == "(" {
			e := p.expr()
			p.expect(")")
			return e
		}
	}
	p.fail("unexpected token %q", t.val)
	return nil
}
