package main

import (
	"encoding/json"
	"flag"
	"fmt"
	"go/types"
	"os"
	"path/filepath"
	"regexp"
	"sort"
	"strings"
	"sync"
	"time"

	"golang.org/x/tools/go/packages"
	"golang.org/x/tools/go/ssa"
	"golang.org/x/tools/go/ssa/ssautil"
)

type FnReport struct {
	Key         string   `json:"function"`
	Pkg         string   `json:"package"`
	File        string   `json:"file,omitempty"`
	Status      string   `json:"status"` // proved | failed | out-of-reach | trusted | unbound
	Reason      string   `json:"reason,omitempty"`
	Obligations int      `json:"obligations"`
	Discharged  int      `json:"discharged"`
	Notes       []string `json:"notes,omitempty"`
	Contract    []string `json:"contract,omitempty"`
}

type OblReport struct {
	Name   string `json:"name"`
	Kind   string `json:"kind"`
	Fn     string `json:"function"`
	Desc   string `json:"desc"`
	Pos    string `json:"pos,omitempty"`
	Result string `json:"result"` // discharged | refuted | undischarged | vacuous | covered
	Solver string `json:"solver,omitempty"`
	Ms     int64  `json:"ms"`
	Query  string `json:"query_file,omitempty"`
	Model  string `json:"model,omitempty"`
	Output string `json:"solver_output,omitempty"`
	Replay       *ReplaySpec `json:"replay_spec,omitempty"`
	ReplayWhyNot string      `json:"replay_why_not,omitempty"`
}

type Report struct {
	Functions   []*FnReport    `json:"functions"`
	Obligations []*OblReport   `json:"obligations"`
	SolverMs    map[string]int64 `json:"solver_ms"`
	LoadS       float64        `json:"load_s"`
	GenS        float64        `json:"gen_s"`
	SolveS      float64        `json:"solve_s"`
	Errors      []string       `json:"errors,omitempty"`
	SpecFiles   []string       `json:"contract_files"`
	Trusted     []string       `json:"assumed_contracts"`
}

func (g *Gen) load(repo string, dirs []string, tags string) error {
	cfg := &packages.Config{
		Mode: packages.NeedName | packages.NeedFiles | packages.NeedCompiledGoFiles | packages.NeedImports |
			packages.NeedDeps | packages.NeedTypes | packages.NeedTypesSizes | packages.NeedSyntax | packages.NeedTypesInfo | packages.NeedModule,
		Dir:        repo,
		BuildFlags: []string{"-tags=" + tags},
		Env:        append(os.Environ(), "GOFLAGS=", "GOWORK="+workFile(repo)),
	}
	// GOVC_OVERLAY: JSON {"<abs path>": "<file with replacement content>"} (self-test mutants; /repo is not touched)
	if ov := os.Getenv("GOVC_OVERLAY"); ov != "" {
		data, err := os.ReadFile(ov)
		if err != nil {
			return err
		}
		m := map[string]string{}
		if err := json.Unmarshal(data, &m); err != nil {
			return err
		}
		cfg.Overlay = map[string][]byte{}
		for path, repl := range m {
			c, err := os.ReadFile(repl)
			if err != nil {
				return err
			}
			cfg.Overlay[path] = c
		}
	}
	var pats []string
	for _, d := range dirs {
		pats = append(pats, d)
	}
	pkgs, err := packages.Load(cfg, pats...)
	if err != nil {
		return err
	}
	var errs []string
	packages.Visit(pkgs, nil, func(p *packages.Package) {
		for _, e := range p.Errors {
			errs = append(errs, p.PkgPath+": "+e.Error())
		}
	})
	if len(errs) > 0 {
		if len(errs) > 10 {
			errs = errs[:10]
		}
		return fmt.Errorf("package errors:\n%s", strings.Join(errs, "\n"))
	}
	g.pkgs = pkgs
	g.allPkgs = map[string]*packages.Package{}
	packages.Visit(pkgs, nil, func(p *packages.Package) { g.allPkgs[p.PkgPath] = p })
	prog, _ := ssautil.AllPackages(pkgs, ssa.GlobalDebug|ssa.InstantiateGenerics)
	prog.Build()
	g.prog = prog
	g.fset = pkgs[0].Fset
	g.ssaPkgs = map[string]*ssa.Package{}
	for _, p := range prog.AllPackages() {
		g.ssaPkgs[p.Pkg.Path()] = p
	}
	return nil
}

func workFile(repo string) string {
	for d := repo; d != "/" && d != "."; d = filepath.Dir(d) {
		if _, err := os.Stat(filepath.Join(d, "go.work")); err == nil {
			return filepath.Join(d, "go.work")
		}
	}
	return ""
}

// findFunction locates the SSA function for a contract key within a package.
func (g *Gen) findFunction(pkgPath, key string) *ssa.Function {
	sp := g.ssaPkgs[pkgPath]
	if sp == nil {
		return nil
	}
	// closures: Outer$N or T.Outer$N
	if i := strings.Index(key, "$"); i >= 0 {
		outer := g.findFunction(pkgPath, key[:i])
		if outer == nil {
			return nil
		}
		want := key
		if j := strings.LastIndex(key, "."); j >= 0 {
			want = key[j+1:]
		}
		var find func(f *ssa.Function) *ssa.Function
		find = func(f *ssa.Function) *ssa.Function {
			for _, a := range f.AnonFuncs {
				if a.Name() == want {
					return a
				}
				if r := find(a); r != nil {
					return r
				}
			}
			return nil
		}
		return find(outer)
	}
	if i := strings.Index(key, "."); i >= 0 {
		tn, mn := key[:i], key[i+1:]
		obj := sp.Pkg.Scope().Lookup(tn)
		if obj == nil {
			return nil
		}
		named, ok := obj.Type().(*types.Named)
		if !ok {
			return nil
		}
		for _, T := range []types.Type{named, types.NewPointer(named)} {
			ms := g.prog.MethodSets.MethodSet(T)
			for k := 0; k < ms.Len(); k++ {
				sel := ms.At(k)
				if sel.Obj().Name() == mn && sel.Obj().Pkg() == sp.Pkg {
					fn := g.prog.MethodValue(sel)
					if fn != nil && fn.Synthetic == "" {
						return fn
					}
					// wrapper: find the declared method
					if f, ok := sel.Obj().(*types.Func); ok {
						if d := g.prog.FuncValue(f); d != nil {
							return d
						}
					}
				}
			}
		}
		return nil
	}
	return sp.Func(key)
}

func main() {
	if len(os.Args) >= 2 && os.Args[1] == "check" {
		checkMain(os.Args[2:])
		return
	}
	repo := flag.String("repo", "/repo/v2", "module directory to load from")
	pkgsFlag := flag.String("pkgs", "", "comma separated package patterns (relative to -repo)")
	funcs := flag.String("funcs", "", "regexp on pkg::key selecting contracts to verify (default all in loaded root packages)")
	out := flag.String("out", "", "report file (JSON)")
	work := flag.String("work", "", "work directory for SMT files")
	specs := flag.String("specs", "/verif/specs", "directory with assumed contracts for external code")
	timeout := flag.Int("timeout", 20, "per-query solver timeout in seconds")
	jobs := flag.Int("j", 16, "parallel solver jobs")
	verbose := flag.Bool("v", false, "verbose")
	dump := flag.String("dump", "", "dump the SMT query of obligations matching this regexp")
	overlay := flag.String("contracts-overlay", "", "extra contract file (pkgpath=file,...) used instead of the in-repo ones (selftest)")
	flag.Parse()
	rep, err := runGovc(Options{Repo: *repo, Pkgs: strings.Split(*pkgsFlag, ","), Funcs: *funcs, Work: *work, Specs: *specs,
		Timeout: *timeout, Jobs: *jobs, Verbose: *verbose, Dump: *dump, Overlay: *overlay})
	if err != nil {
		fmt.Fprintln(os.Stderr, "govc:", err)
		os.Exit(2)
	}
	if *out != "" {
		data, _ := json.MarshalIndent(rep, "", " ")
		_ = os.WriteFile(*out, data, 0o644)
	}
	bad := 0
	for _, o := range rep.Obligations {
		if o.Result != "discharged" && o.Result != "covered" {
			bad++
			fmt.Printf("%-12s %s  [%s] %s %s\n", strings.ToUpper(o.Result), o.Name, o.Pos, o.Desc, firstLines(o.Model, 1))
		}
	}
	for _, f := range rep.Functions {
		fmt.Printf("%-12s %s::%s  %d/%d %s\n", f.Status, f.Pkg, f.Key, f.Discharged, f.Obligations, f.Reason)
	}
	fmt.Printf("load %.1fs gen %.1fs solve %.1fs; %d obligations, %d not discharged\n", rep.LoadS, rep.GenS, rep.SolveS, len(rep.Obligations), bad)
	if bad > 0 || len(rep.Errors) > 0 {
		for _, e := range rep.Errors {
			fmt.Println("ERROR", e)
		}
		os.Exit(1)
	}
}

type Options struct {
	Repo    string
	Pkgs    []string
	Funcs   string
	Work    string
	Specs   string
	Timeout int
	Jobs    int
	Verbose bool
	Dump    string
	Overlay string
	Tags    string
	NoReplay bool
}

func runGovc(opt Options) (*Report, error) {
	t0 := time.Now()
	g := &Gen{typeIDs: map[string]int{}, strLits: map[string]int{}, writeSets: map[*ssa.Function]*writeSet{},
		compSortHints: map[string]Sort{}, stable: map[string]map[string]bool{}, timeoutS: opt.Timeout, verbose: opt.Verbose}
	g.repoMod = "github.com/wundergraph/graphql-go-tools"
	tags := opt.Tags
	if tags == "" {
		tags = "verif"
	}
	if err := g.load(opt.Repo, opt.Pkgs, tags); err != nil {
		return nil, err
	}
	rep := &Report{SolverMs: map[string]int64{}}
	rep.LoadS = time.Since(t0).Seconds()
	// contracts
	g.cs = newContractSet()
	overlay := map[string]string{}
	if opt.Overlay != "" {
		for _, kv := range strings.Split(opt.Overlay, ",") {
			if i := strings.Index(kv, "="); i > 0 {
				overlay[kv[:i]] = kv[i+1:]
			}
		}
	}
	for path, p := range g.allPkgs {
		if !g.inRepo(path) {
			continue
		}
		if f, ok := overlay[path]; ok {
			if err := g.cs.parseContractFile(f, path, false); err != nil {
				return nil, err
			}
			continue
		}
		for _, f := range p.CompiledGoFiles {
			if strings.HasSuffix(f, "zz_contracts_verif.go") {
				if err := g.cs.parseContractFile(f, path, false); err != nil {
					return nil, err
				}
			}
		}
	}
	if opt.Specs != "" {
		files, _ := filepath.Glob(filepath.Join(opt.Specs, "*.spec"))
		sort.Strings(files)
		for _, f := range files {
			if err := g.cs.parseContractFile(f, "", true); err != nil {
				return nil, err
			}
		}
	}
	rep.SpecFiles = g.cs.Files
	for _, k := range g.cs.sortedKeys() {
		c := g.cs.ByKey[k]
		if c.External || c.Trusted != "" {
			rep.Trusted = append(rep.Trusted, k)
		}
	}
	work := opt.Work
	if work == "" {
		d, err := os.MkdirTemp("", "govc")
		if err != nil {
			return nil, err
		}
		work = d
		defer os.RemoveAll(d)
	} else {
		_ = os.MkdirAll(work, 0o755)
	}
	g.workDir = work
	// which contracts to verify: those of the root packages
	roots := map[string]bool{}
	for _, p := range g.pkgs {
		roots[p.PkgPath] = true
	}
	var re *regexp.Regexp
	if opt.Funcs != "" {
		var err error
		re, err = regexp.Compile(opt.Funcs)
		if err != nil {
			return nil, err
		}
	}
	t1 := time.Now()
	var all []*Obligation
	for _, o := range g.checkStableDecls() {
		if roots[g.declPkgOf(o)] {
			all = append(all, o)
		}
	}
	var fgs []*FnGen
	for _, k := range g.cs.sortedKeys() {
		c := g.cs.ByKey[k]
		if c.External || !roots[c.PkgPath] {
			continue
		}
		if re != nil && !re.MatchString(k) {
			continue
		}
		fr := &FnReport{Key: c.Key, Pkg: g.shortPkg(c.PkgPath), Contract: c.Raw}
		rep.Functions = append(rep.Functions, fr)
		if c.Trusted != "" {
			fr.Status = "trusted"
			fr.Reason = c.Trusted
			continue
		}
		fn := g.findFunction(c.PkgPath, c.Key)
		if fn == nil {
			fr.Status = "unbound"
			fr.Reason = "contract does not bind to any function (renamed or removed?)"
			o := &Obligation{Name: g.shortPkg(c.PkgPath) + "." + c.Key + "#bind", Kind: "bind", Fn: c.Key,
				Desc: "contract binds to a function", Res: SolverResult{Result: "unknown", Output: fr.Reason}, NAsserts: -1}
			all = append(all, o)
			continue
		}
		fr.File = g.fset.Position(fn.Pos()).Filename
		fg := newFnGen(g, fn, c)
		if err := fg.generate(); err != nil {
			fr.Status = "out-of-reach"
			fr.Reason = err.Error()
			o := &Obligation{Name: g.shortPkg(c.PkgPath) + "." + c.Key + "#reach", Kind: "reach", Fn: c.Key,
				Desc: "function is within the supported subset", Res: SolverResult{Result: "unknown", Output: fr.Reason}, NAsserts: -1}
			all = append(all, o)
			continue
		}
		if fg.failed != "" {
			fr.Status = "out-of-reach"
			fr.Reason = fg.failed
			o := &Obligation{Name: g.shortPkg(c.PkgPath) + "." + c.Key + "#reach", Kind: "reach", Fn: c.Key,
				Desc: "function is within the supported subset", Res: SolverResult{Result: "unknown", Output: fr.Reason}, NAsserts: -1}
			all = append(all, o)
			continue
		}
		// loops without contract
		for _, li := range fg.loops {
			if li.lc == nil {
				fg.note(fmt.Sprintf("loop %d has no invariant/variant: termination of this loop is not proved", li.ordinal))
			} else if len(li.lc.Decreases) == 0 {
				fg.note(fmt.Sprintf("loop %d: no decreases clause, termination not proved", li.ordinal))
			}
		}
		for lo := range c.Loops {
			found := false
			for _, li := range fg.loops {
				if li.ordinal == lo {
					found = true
				}
			}
			if !found {
				o := &Obligation{Name: g.shortPkg(c.PkgPath) + "." + c.Key + fmt.Sprintf("#bind.loop%d", lo), Kind: "bind", Fn: c.Key,
					Desc: "loop contract binds to a loop", Res: SolverResult{Result: "unknown", Output: "no such loop"}, NAsserts: -1}
				all = append(all, o)
			}
		}
		fr.Notes = sortedKeys(fg.notes)
		fgs = append(fgs, fg)
		all = append(all, fg.obls...)
		fr.Status = "pending"
	}
	rep.GenS = time.Since(t1).Seconds()
	// discharge
	t2 := time.Now()
	var dumpRe *regexp.Regexp
	if opt.Dump != "" {
		dumpRe = regexp.MustCompile(opt.Dump)
	}
	sem := make(chan struct{}, max(1, opt.Jobs/2))
	var wg sync.WaitGroup
	for i, o := range all {
		if o.NAsserts < 0 {
			continue
		}
		wg.Add(1)
		go func(i int, o *Obligation) {
			defer wg.Done()
			sem <- struct{}{}
			defer func() { <-sem }()
			q := o.query()
			fname := fmt.Sprintf("q%04d", i)
			useCvc5 := true
			to := opt.Timeout
			if o.Vacuity && to > 3 {
				to = 3 // cover checks are best effort
			}
			// stage A: quantifier-free relaxation (dropping assumptions is sound for proving; fast; gives models)
			relaxed, dropped := o.relaxedQuery()
			if dropped > 0 && !o.Vacuity {
				ra := runPortfolio(work, fname+"r", relaxed, min(to, 10), useCvc5)
				if ra.Result == "unsat" {
					ra.Solver += " (quantifier-free)"
					o.Res = ra
				} else {
					o.Res = runPortfolio(work, fname, q, to, useCvc5)
					if o.Res.Result != "unsat" && o.Res.Result != "sat" && ra.Result == "sat" {
						o.Res.Model = ra.Model
						o.Res.Output += "\ncandidate model from the quantifier-free relaxation (quantified assumptions dropped; may be spurious)"
						o.RelaxedModel = true
					}
				}
			} else {
				o.Res = runPortfolio(work, fname, q, to, useCvc5)
			}
			if dumpRe != nil && dumpRe.MatchString(o.Name) {
				_ = os.WriteFile(filepath.Join(work, "dump_"+sanitize(strings.ReplaceAll(o.Name, "/", "_"))+".smt2"), []byte(q), 0o644)
			}
		}(i, o)
	}
	wg.Wait()
	// second chance: obligations that timed out under the parallel load are re-run one at a time with a
	// longer limit before they are reported (a timeout is "undecided", and contention must not raise alarms)
	for i, o := range all {
		if o.NAsserts < 0 || o.Vacuity {
			continue
		}
		if o.Res.Result == "unsat" || o.Res.Result == "sat" {
			continue
		}
		saved := o.Res
		r2 := runRetry(work, fmt.Sprintf("q%04dretry", i), o.query(), opt.Timeout*3)
		if r2.Result == "unsat" || r2.Result == "sat" {
			r2.Solver += " (retry, sequential)"
			o.Res = r2
		} else {
			o.Res = saved
		}
	}
	rep.SolveS = time.Since(t2).Seconds()
	byFn := map[string]*FnReport{}
	for _, f := range rep.Functions {
		byFn[f.Key] = f
	}
	for _, o := range all {
		or := &OblReport{Name: o.Name, Kind: o.Kind, Fn: o.Fn, Desc: o.Desc, Pos: o.Pos, Solver: o.Res.Solver, Ms: o.Res.Ms}
		switch {
		case o.Vacuity:
			// must be satisfiable
			switch o.Res.Result {
			case "sat":
				or.Result = "covered"
			case "unsat":
				or.Result = "vacuous"
				or.Output = "assumptions are contradictory at this point: every obligation here holds vacuously"
			default:
				or.Result = "covered" // unknown: cannot show vacuity; do not alarm
				or.Output = "cover check inconclusive: " + o.Res.Result
			}
		case o.Res.Result == "unsat":
			or.Result = "discharged"
		case o.Res.Result == "sat":
			or.Result = "refuted"
			or.Model = o.Res.Model
			if !opt.NoReplay {
				or.Replay, or.ReplayWhyNot = buildReplay(o, work, len(rep.Obligations), opt.Repo)
			}
		case o.Res.Result == "solver-error":
			or.Result = "solver-error"
			or.Output = o.Res.Output
		default:
			or.Result = "undischarged"
			or.Output = o.Res.Output
			or.Model = o.Res.Model
		}
		rep.SolverMs[o.Res.Solver] += o.Res.Ms
		rep.Obligations = append(rep.Obligations, or)
		if f := byFn[o.Fn]; f != nil && !o.Vacuity {
			f.Obligations++
			if or.Result == "discharged" {
				f.Discharged++
			}
		}

	}
	for _, f := range rep.Functions {
		if f.Status == "pending" {
			if f.Discharged == f.Obligations {
				f.Status = "proved"
			} else {
				f.Status = "failed"
			}
		}
	}
	return rep, nil
}

// relaxedQuery drops every assertion that contains a quantifier.
func (o *Obligation) relaxedQuery() (string, int) {
	fg := o.fg
	var sb strings.Builder
	sb.WriteString("; obligation " + o.Name + " (quantifier-free relaxation)\n")
	for _, d := range fg.decls {
		sb.WriteString(d)
		sb.WriteByte('\n')
	}
	dropped := 0
	for _, a := range fg.asserts[:o.NAsserts] {
		if strings.Contains(a, "(forall ") || strings.Contains(a, "(exists ") {
			dropped++
			continue
		}
		sb.WriteString(a)
		sb.WriteByte('\n')
	}
	goal := And(o.Guard, Not(o.Goal)).S
	if strings.Contains(goal, "(forall ") || strings.Contains(goal, "(exists ") {
		return "", 0
	}
	sb.WriteString("(assert " + goal + ")\n(check-sat)\n(get-model)\n")
	return sb.String(), dropped
}

func (o *Obligation) query() string {
	fg := o.fg
	var sb strings.Builder
	sb.WriteString("; obligation " + o.Name + "\n; " + o.Desc + "\n; " + o.Pos + "\n")
	for _, d := range fg.decls {
		sb.WriteString(d)
		sb.WriteByte('\n')
	}
	for _, a := range fg.asserts[:o.NAsserts] {
		sb.WriteString(a)
		sb.WriteByte('\n')
	}
	sb.WriteString("(assert " + And(o.Guard, Not(o.Goal)).S + ")\n")
	sb.WriteString("(check-sat)\n")
	if !o.Vacuity {
		sb.WriteString("(get-model)\n")
	}
	return sb.String()
}


func (g *Gen) declPkgOf(o *Obligation) string {
	for _, d := range g.cs.Decls {
		if (d.Kind == "stable" || d.Kind == "stablecells" || d.Kind == "stablemaps" || d.Kind == "stableelems" || d.Kind == "frozen" || d.Kind == "frozenelems" || d.Kind == "chaninv" || d.Kind == "readers" || d.Kind == "noreads") && len(d.Args) > 0 && (strings.HasPrefix(o.Name, g.shortPkg(d.PkgPath)+"."+sanitize(d.Args[0])+"#") || strings.HasPrefix(o.Name, g.shortPkg(d.PkgPath)+"."+d.Args[0]+"#")) {
			return d.PkgPath
		}
	}
	return ""
}
