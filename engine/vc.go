package main

// Per-function verification-condition generation over go/ssa.

import (
	"fmt"
	"go/constant"
	"go/token"
	"go/types"
	"sort"
	"strings"

	"golang.org/x/tools/go/ssa"
)

var maxLenTerm = Term{"1125899906842624", SInt} // 2^50

type loopInfo struct {
	header   *ssa.BasicBlock
	ordinal  int
	body     map[int]bool
	lc       *LoopContract
	measures []Term
	hdrState *State
}

type modEntry struct {
	comp  string // full component name
	whole bool   // whole component may change
	elem  bool
	base  Term // LField
	arr   Term // LElem
	idx   *Term
	src   string
}

type FnGen struct {
	acMatched map[int]bool // at-call clauses of the contract that matched some call site
	closureWritten map[string]bool // prefixes of private-local components whose variable a closure may assign
	g        *Gen
	fn       *ssa.Function
	c        *Contract
	key      string
	decls    []string
	declared map[string]bool
	asserts  []string
	obls     []*Obligation
	oblNames map[string]int
	vals     map[ssa.Value]*Val
	reach    map[int]Term
	edges    map[[2]int]Term
	endState map[int]*State
	entry    *State
	cur      *State
	curReach Term
	curBlock *ssa.BasicBlock
	deniedEvents map[string]bool // nocount(ev) entries of the contract under verification
	curCC    *ssa.CallCommon // the call being translated (decides which stable components a havoc keeps)
	nfresh   int
	pass     int
	written  map[int]map[string]bool
	loopMods map[int]map[string]bool
	loops    map[int]*loopInfo
	inLoop   map[int][]*loopInfo // block index -> loops containing it
	params   map[string]*Val
	lets     map[string]*Val
	ghosts   map[string]string // ghost var name -> comp
	ghostTypes map[string]types.Type
	closures map[ssa.Value]*ssa.MakeClosure
	declaredEvents map[string]bool
	notes    map[string]bool
	W        []modEntry
	GW       []modEntry // declared ghost-field (permission) writes
	modAll   bool
	allocEntry Term
	compSorts  map[string]Sort
	compOrder  []string
	havocAllSeen bool
	failed     string // non-empty: function is out of reach
	debugNames map[string][]debugBinding
	rangeIters map[ssa.Value]*rangeIter
	localAllocs []Term
	curInstrIdx int
	paramStable map[string]bool
	privateRefs map[string]string // ref term -> private component prefix (locals captured only by local closures)
	semiPriv    map[string]string // private prefix -> ghost escape flag (captured variables whose closures may be handed out)
	semiPrivOf  map[*ssa.Alloc]bool
	funcConsts  map[string]*ssa.Function // term of a function constant -> the function
	waitChans   []Term                   // channels of the blocking wait being translated (waitson())
	refComps    map[string]bool          // components holding references (found in pass 1)
	privateOf   map[*ssa.Alloc]bool
}

type debugBinding struct {
	v     ssa.Value
	block *ssa.BasicBlock
	idx   int
	addr  bool
	pos   token.Pos
}

type rangeIter struct {
	x   *Val
	T   types.Type
	idx Term // current index term (state-less: modelled through a comp)
	comp string
}

func newFnGen(g *Gen, fn *ssa.Function, c *Contract) *FnGen {
	fg := &FnGen{g: g, fn: fn, c: c, key: fnKey(fn)}
	return fg
}

func (fg *FnGen) reset(pass int) {
	fg.pass = pass
	fg.decls = nil
	fg.declared = map[string]bool{}
	fg.asserts = nil
	fg.obls = nil
	fg.oblNames = map[string]int{}
	fg.vals = map[ssa.Value]*Val{}
	fg.reach = map[int]Term{}
	fg.edges = map[[2]int]Term{}
	fg.endState = map[int]*State{}
	fg.nfresh = 0
	fg.written = map[int]map[string]bool{}
	fg.params = map[string]*Val{}
	fg.lets = map[string]*Val{}
	fg.ghosts = map[string]string{}
	fg.ghostTypes = map[string]types.Type{}
	fg.closures = map[ssa.Value]*ssa.MakeClosure{}
	if fg.notes == nil {
		fg.notes = map[string]bool{}
	}
	fg.W = nil
	fg.GW = nil
	fg.havocAllSeen = false
	fg.rangeIters = map[ssa.Value]*rangeIter{}
	fg.localAllocs = nil
	fg.privateRefs = map[string]string{}
	fg.semiPriv = map[string]string{}
	if pass == 1 {
		fg.compSorts = map[string]Sort{}
		fg.compOrder = nil
	}
}

func (fg *FnGen) note(s string) { fg.notes[s] = true }

// ---------------------------------------------------------------------------------------
// declarations, assertions, obligations

func (fg *FnGen) declare(name string, sort Sort) Term {
	s := sym(name)
	if !fg.declared[s] {
		fg.declared[s] = true
		fg.decls = append(fg.decls, fmt.Sprintf("(declare-fun %s () %s)", s, sort))
	}
	return Term{s, sort}
}

func (fg *FnGen) declareFun(name string, args []Sort, res Sort) string {
	s := sym(name)
	if !fg.declared[s] {
		fg.declared[s] = true
		var as []string
		for _, a := range args {
			as = append(as, string(a))
		}
		fg.decls = append(fg.decls, fmt.Sprintf("(declare-fun %s (%s) %s)", s, strings.Join(as, " "), res))
	}
	return s
}

func (fg *FnGen) fresh(hint string, sort Sort) Term {
	fg.nfresh++
	return fg.declare(fmt.Sprintf("%s!%d", sanitize(hint), fg.nfresh), sort)
}

func (fg *FnGen) assertRaw(t Term) {
	if t.S == "true" {
		return
	}
	fg.asserts = append(fg.asserts, "(assert "+t.S+")")
}

// assume adds a fact guarded by the reachability of the current point.
func (fg *FnGen) assume(t Term) { fg.assertRaw(Implies(fg.curReach, t)) }

func (fg *FnGen) posStr(p token.Pos) string {
	if !p.IsValid() {
		return ""
	}
	ps := fg.g.fset.Position(p)
	f := ps.Filename
	if i := strings.Index(f, "/repo/"); i >= 0 {
		f = f[i+6:]
	}
	return fmt.Sprintf("%s:%d", f, ps.Line)
}

func (fg *FnGen) oblige(kind, what string, goal Term, pos token.Pos, desc string) {
	fg.obligeG(kind, what, fg.curReach, goal, pos, desc)
}

func (fg *FnGen) obligeG(kind, what string, guard, goal Term, pos token.Pos, desc string) {
	base := fg.g.shortPkg(fnPkgPath(fg.fn)) + "." + fg.key + "#" + kind
	if what != "" {
		base += "." + sanitize(what)
	}
	n := fg.oblNames[base]
	fg.oblNames[base] = n + 1
	name := base
	if n > 0 {
		name = fmt.Sprintf("%s.%d", base, n)
	}
	if fg.pass == 2 {
		if goal.S == "true" || guard.S == "false" {
			// trivially discharged at generation time; still counted
			fg.obls = append(fg.obls, &Obligation{Name: name, Kind: kind, Fn: fg.key, Desc: desc, Pos: fg.posStr(pos),
				Guard: guard, Goal: goal, NAsserts: -1, fg: fg, Res: SolverResult{Result: "unsat", Solver: "trivial"}})
		} else {
			fg.obls = append(fg.obls, &Obligation{Name: name, Kind: kind, Fn: fg.key, Desc: desc, Pos: fg.posStr(pos),
				Guard: guard, Goal: goal, NAsserts: len(fg.asserts), NDecls: len(fg.decls), fg: fg})
		}
	}
	// after the check the execution continues only if the condition held
	fg.assertRaw(Implies(guard, goal))
}

func (g *Gen) shortPkg(path string) string {
	p := strings.TrimPrefix(path, g.repoMod)
	p = strings.TrimPrefix(p, "/")
	p = strings.TrimPrefix(p, "v2/pkg/")
	p = strings.TrimPrefix(p, "v2/")
	if p == "" {
		p = path
	}
	return strings.ReplaceAll(p, "/", ".")
}

// ---------------------------------------------------------------------------------------
// components / state

func (fg *FnGen) compSort(comp string, sort Sort) {
	if s, ok := fg.compSorts[comp]; ok {
		if s != sort {
			panic(unsupported(fmt.Sprintf("component %s used with sorts %s and %s", comp, s, sort)))
		}
		return
	}
	fg.compSorts[comp] = sort
	fg.compOrder = append(fg.compOrder, comp)
	if fg.pass == 2 && fg.havocAllSeen {
		fg.note("internal: component " + comp + " first seen in pass 2 after a havoc-all")
		fg.failed = "component registration order differs between passes (" + comp + ")"
	}
}

func (fg *FnGen) get(st *State, comp string, sort Sort) Term {
	fg.compSort(comp, sort)
	if t, ok := st.ver[comp]; ok {
		return t
	}
	t := fg.declare(comp+"@0", sort)
	st.ver[comp] = t
	if fg.entry != nil {
		if _, ok := fg.entry.ver[comp]; !ok {
			fg.entry.ver[comp] = t
		}
	}
	return t
}

func (fg *FnGen) set(comp string, t Term) {
	fg.compSort(comp, t.Sort)
	// name the new version to keep terms small
	fg.nfresh++
	c := fg.declare(fmt.Sprintf("%s@%d", comp, fg.nfresh), t.Sort)
	fg.assertRaw(Eq(c, t))
	fg.cur.ver[comp] = c
	fg.markWritten(comp)
}

func (fg *FnGen) markWritten(comp string) {
	if fg.curBlock == nil {
		return
	}
	m := fg.written[fg.curBlock.Index]
	if m == nil {
		m = map[string]bool{}
		fg.written[fg.curBlock.Index] = m
	}
	m[comp] = true
}

func (fg *FnGen) havocComp(comp string) {
	sort := fg.compSorts[comp]
	fg.nfresh++
	c := fg.declare(fmt.Sprintf("%s@%d", comp, fg.nfresh), sort)
	fg.cur.ver[comp] = c
	fg.markWritten(comp)
}

func (fg *FnGen) havocAll(why string) {
	fg.havocAllSeen = true
	old := fg.allocCur()
	for _, comp := range fg.compOrder {
		if isNonHeapComp(comp) {
			continue // lock ownership, ghost variables and event counters are not heap: handled explicitly
		}
		if fg.g.isStableComp(comp) {
			// stored only by its declared writers (checked by the package-wide SSA scan): kept unless the
			// call causing this havoc may (transitively) run one of them
			if fg.curCC == nil || fg.g.stableKeptAcross(comp, fg.g.callTargets(fg.g.buildCallGraph(), fg.curCC)) {
				continue
			}
		}
		if strings.HasPrefix(comp, "H:local!") {
			// private local: unreachable for callees (closures bound to it havoc it explicitly); a captured variable
			// whose closure has been handed out is reachable from then on
			for pfx, esc := range fg.semiPriv {
				if strings.HasPrefix(comp, "H:"+pfx) {
					sort := fg.compSorts[comp]
					cur := fg.get(fg.cur, comp, sort)
					e := fg.get(fg.cur, esc, SBool)
					fg.havocComp(comp)
					nv := fg.cur.ver[comp]
					fg.assume(Implies(Not(e), Eq(nv, cur)))
					break
				}
			}
			continue
		}
		fg.havocComp(comp)
	}
	fg.markWritten("$all")
	fg.assume(Ge(fg.allocCur(), old))
}

func isNonHeapComp(comp string) bool {
	return strings.HasPrefix(comp, "held:") || strings.HasPrefix(comp, "rheld:") || strings.HasPrefix(comp, "ghost:") || strings.HasPrefix(comp, "cnt:") ||
		strings.HasPrefix(comp, "obs:") || isGhostFieldComp(comp)
}

// ghost fields (decl ghostfield T.name type) live in components H:<T>.$name: permissions/ownership that only
// the declaring contracts can move; unknown code cannot touch them.
func isGhostFieldComp(comp string) bool {
	return strings.HasPrefix(comp, "H:") && strings.Contains(comp, ".$")
}

// havocCounter: an event counter changed by an unknown amount; counters only grow.
func (fg *FnGen) havocCounter(comp string, pos token.Pos) {
	fg.compSort(comp, SInt)
	old := fg.get(fg.cur, comp, SInt)
	fg.effectCheck(comp, pos)
	fg.havocComp(comp)
	fg.assume(Ge(fg.cur.ver[comp], old))
}

// havocAllCounters: a dynamic call without contract may perform any event.
func (fg *FnGen) havocAllCounters(pos token.Pos, except ...map[string]bool) {
	for _, comp := range append([]string{}, fg.compOrder...) {
		if strings.HasPrefix(comp, "cnt:") {
			if len(except) > 0 && except[0][comp] {
				continue
			}
			if fg.curCC != nil && !fg.g.callMayEmit(strings.TrimPrefix(comp, "cnt:"), fg.curCC) {
				continue // no call that is this event is reachable from the callee (conservative call graph)
			}
			fg.havocCounter(comp, pos)
		}
	}
	if len(except) == 0 || len(except[0]) == 0 {
		fg.markWritten("$allcnt")
	}
}

// effectCheck: a verified function may only perform events it declares (modifies count(ev) / emits ev).
func (fg *FnGen) effectCheck(comp string, pos token.Pos) {
	if fg.c == nil || fg.declaredEvents[comp] || (fg.declaredEvents["cnt:*"] && !fg.deniedEvents[comp]) {
		return
	}
	fg.oblige("effect", strings.TrimPrefix(comp, "cnt:"), TFalse, pos, "event "+strings.TrimPrefix(comp, "cnt:")+" may happen here but the contract does not declare it (modifies count(...))")
}

func (fg *FnGen) allocCur() Term { return fg.get(fg.cur, "$alloc", SInt) }

// join states of forward predecessors
func (fg *FnGen) join(b *ssa.BasicBlock, preds []*ssa.BasicBlock) *State {
	if len(preds) == 1 {
		return fg.endState[preds[0].Index].clone()
	}
	st := &State{ver: map[string]Term{}}
	keys := map[string]bool{}
	for _, p := range preds {
		for k := range fg.endState[p.Index].ver {
			keys[k] = true
		}
	}
	for _, k := range sortedKeys(keys) {
		sort := fg.compSorts[k]
		var first Term
		same := true
		for i, p := range preds {
			t := fg.get(fg.endState[p.Index], k, sort)
			if i == 0 {
				first = t
			} else if t.S != first.S {
				same = false
			}
		}
		if same {
			st.ver[k] = first
			continue
		}
		c := fg.declare(fmt.Sprintf("%s@b%d", k, b.Index), sort)
		for _, p := range preds {
			e := fg.edges[[2]int{p.Index, b.Index}]
			fg.assertRaw(Implies(e, Eq(c, fg.endState[p.Index].ver[k])))
		}
		st.ver[k] = c
	}
	// defers: ordered union; each deferred call carries the reach condition under which it was pushed
	// and is executed conditionally at RunDefers
	seenD := map[*ssa.Defer]bool{}
	for _, p := range preds {
		for _, d := range fg.endState[p.Index].defers {
			if !seenD[d.instr] {
				seenD[d.instr] = true
				st.defers = append(st.defers, d)
			}
		}
	}
	sort.SliceStable(st.defers, func(i, j int) bool {
		a, b := st.defers[i].instr, st.defers[j].instr
		if a.Block().Index != b.Block().Index {
			return a.Block().Dominates(b.Block())
		}
		return false
	})
	return st
}

// ---------------------------------------------------------------------------------------
// values

func (fg *FnGen) rangeFact(l Leaf, t Term) Term {
	if l.Sort != SInt {
		return TTrue
	}
	switch l.Role {
	case "off", "len", "cap", "arr", "tag":
		return Ge(t, IntLit(0))
	case "val":
		return TTrue
	}
	if l.T == nil {
		return TTrue
	}
	if lo, hi, ok := intRange(l.T); ok {
		return And(Le(BigLit(lo.String()), t), Le(t, BigLit(hi.String())))
	}
	switch types.Unalias(l.T).Underlying().(type) {
	case *types.Pointer, *types.Map, *types.Chan, *types.Signature:
		return Ge(t, IntLit(0))
	}
	return TTrue
}

func (fg *FnGen) valFacts(v *Val) Term {
	if v.Loc != nil {
		return TTrue
	}
	ls := layout(v.T)
	var fs []Term
	for i, l := range ls {
		fs = append(fs, fg.rangeFact(l, v.L[i]))
	}
	// slice shape: len <= cap
	fs = append(fs, fg.shapeFacts(v.T, v.L)...)
	return And(fs...)
}

func (fg *FnGen) shapeFacts(T types.Type, L []Term) []Term {
	var fs []Term
	ls := layout(T)
	for i := 0; i+3 < len(ls); i++ {
		if ls[i].Role == "arr" && ls[i+2].Role == "len" && ls[i+3].Role == "cap" {
			fs = append(fs, Le(L[i+2], L[i+3]))
			fs = append(fs, Le(L[i+3], maxLenTerm)) // machine assumption: no object has more than 2^50 elements
			// nil slice has no elements
			fs = append(fs, Implies(Eq(L[i], IntLit(0)), Eq(L[i+3], IntLit(0))))
		}
	}
	if isStringType(T) && len(L) == 1 {
		fs = append(fs, Ge(fg.strLen(L[0]), IntLit(0)), Le(fg.strLen(L[0]), maxLenTerm))
	}
	return fs
}

// heapFacts: references stored in the heap are allocated.
func (fg *FnGen) allocFacts(v *Val) Term {
	if v.Loc != nil {
		return TTrue
	}
	ls := layout(v.T)
	var fs []Term
	a := fg.allocCur()
	for i, l := range ls {
		if l.Sort != SInt {
			continue
		}
		if l.Role == "arr" {
			fs = append(fs, Lt(v.L[i], a))
			continue
		}
		if l.T == nil {
			continue
		}
		switch types.Unalias(l.T).Underlying().(type) {
		case *types.Pointer, *types.Map, *types.Chan:
			fs = append(fs, Lt(v.L[i], a))
		}
	}
	return And(fs...)
}

func (fg *FnGen) freshVal(T types.Type, hint string) *Val {
	ls := layout(T)
	v := &Val{T: T}
	for _, l := range ls {
		v.L = append(v.L, fg.fresh(hint+l.Path, l.Sort))
	}
	return v
}

func (fg *FnGen) zeroVal(T types.Type) *Val {
	ls := layout(T)
	v := &Val{T: T}
	for _, l := range ls {
		if l.Sort == SBool {
			v.L = append(v.L, TFalse)
		} else if l.T != nil && isStringType(l.T) {
			v.L = append(v.L, fg.strLitTerm(""))
		} else {
			v.L = append(v.L, IntLit(0))
		}
	}
	return v
}

func (fg *FnGen) strLen(sid Term) Term {
	f := fg.declareFun("str_len", []Sort{SInt}, SInt)
	return app(f, SInt, sid)
}

func (fg *FnGen) strAt(sid, i Term) Term {
	f := fg.declareFun("str_at", []Sort{SInt, SInt}, SInt)
	return app(f, SInt, sid, i)
}

func (fg *FnGen) strLitTerm(s string) Term {
	id := fg.g.strLit(s)
	name := fmt.Sprintf("strlit!%d", id)
	fresh := !fg.declared[sym(name)]
	c := fg.declare(name, SInt)
	if fresh {
		// literals are interned: equal content <=> equal id. ids of literals are negative and distinct.
		fg.assertRaw(Eq(c, IntLit(int64(-id))))
		fg.assertRaw(Eq(fg.strLen(c), IntLit(int64(len(s)))))
		if len(s) <= 16 {
			for i := 0; i < len(s); i++ {
				fg.assertRaw(Eq(fg.strAt(c, IntLit(int64(i))), IntLit(int64(s[i]))))
			}
		}
	}
	return c
}

func (fg *FnGen) constVal(c *ssa.Const) *Val {
	T := c.Type()
	if c.Value == nil {
		return fg.zeroVal(T)
	}
	switch c.Value.Kind() {
	case constant.Bool:
		return &Val{T: T, L: []Term{BoolLit(constant.BoolVal(c.Value))}}
	case constant.Int:
		if isFloatType(T) {
			return fg.opaqueConst(T, c.Value.ExactString())
		}
		return &Val{T: T, L: []Term{BigLit(c.Value.ExactString())}}
	case constant.String:
		return &Val{T: T, L: []Term{fg.strLitTerm(constant.StringVal(c.Value))}}
	case constant.Float, constant.Complex:
		if isIntType(T) {
			if i, ok := constant.Int64Val(constant.ToInt(c.Value)); ok {
				return &Val{T: T, L: []Term{IntLit(i)}}
			}
		}
		return fg.opaqueConst(T, c.Value.ExactString())
	}
	return fg.freshVal(T, "const")
}

func (fg *FnGen) opaqueConst(T types.Type, s string) *Val {
	c := fg.declare("fconst!"+sanitize(s), SInt)
	return &Val{T: T, L: []Term{c}}
}

func (fg *FnGen) val(v ssa.Value) *Val {
	switch x := v.(type) {
	case *ssa.Const:
		return fg.constVal(x)
	case *ssa.Function:
		t := fg.declare("fn!"+sanitize(x.String()), SInt)
		if fg.funcConsts == nil {
			fg.funcConsts = map[string]*ssa.Function{}
		}
		fg.funcConsts[t.S] = x
		return &Val{T: x.Type(), L: []Term{t}}
	case *ssa.Global:
		// address of a package-level variable: a root reference
		c := fg.declare("global!"+sanitize(x.String()), SInt)
		if !fg.declared["gfact!"+c.S] {
			fg.declared["gfact!"+c.S] = true
			fg.assertRaw(Gt(c, IntLit(0)))
		}
		return &Val{T: x.Type(), L: []Term{c}}
	case *ssa.Builtin:
		return &Val{T: x.Type(), L: []Term{IntLit(0)}}
	}
	if r, ok := fg.vals[v]; ok {
		return r
	}
	if fg.failed == "" {
		fg.failed = fmt.Sprintf("value %s used before definition (irreducible control flow?)", v.Name())
	}
	r := fg.freshVal(v.Type(), "undef_"+v.Name())
	fg.vals[v] = r
	return r
}

// bind names an SSA value: one constant per leaf, defined by equation.
func (fg *FnGen) bind(v ssa.Value, val *Val) {
	if val.Loc != nil {
		fg.vals[v] = val
		return
	}
	ls := layout(v.Type())
	if len(ls) != len(val.L) {
		// type mismatch in layout (e.g. generic): keep as is
		fg.vals[v] = val
		return
	}
	nv := &Val{T: v.Type()}
	for i, l := range ls {
		c := fg.declare(v.Name()+l.Path, l.Sort)
		fg.assertRaw(Eq(c, val.L[i]))
		nv.L = append(nv.L, c)
	}
	fg.vals[v] = nv
}

// ---------------------------------------------------------------------------------------
// locations

func (fg *FnGen) deref(p *Val, pos token.Pos, what string) *Loc {
	if p.Loc != nil {
		return p.Loc
	}
	T := derefType(p.T)
	if T == nil {
		panic(unsupported("dereference of non-pointer " + p.T.String()))
	}
	ref := p.one()
	if fg.safety("nil") {
		fg.oblige("nil", what, Not(Eq(ref, IntLit(0))), pos, "nil dereference")
	}
	if pfx, ok := fg.privateRefs[ref.S]; ok {
		return &Loc{Prefix: pfx, Base: ref, T: T}
	}
	return &Loc{Prefix: typeKey(T), Base: ref, T: T}
}

func (fg *FnGen) safety(k string) bool {
	if fg.c == nil {
		return false
	}
	if fg.c.Safety["none"] {
		return false
	}
	if k == "nil" {
		return fg.c.Safety["nil"]
	}
	if fg.c.Safety["no-"+k] {
		return false
	}
	return true
}

func (fg *FnGen) compName(l *Loc, leaf Leaf) string {
	if l.Elem {
		return "E:" + l.Prefix + leaf.Path
	}
	return "H:" + l.Prefix + leaf.Path
}

// isRefLeaf: the leaf holds a reference (pointer, map, channel, backing array of a slice).
func isRefLeaf(leaf Leaf) bool {
	if leaf.Sort != SInt {
		return false
	}
	if leaf.Role == "arr" {
		return true
	}
	if leaf.T != nil {
		switch types.Unalias(leaf.T).Underlying().(type) {
		case *types.Pointer, *types.Map, *types.Chan:
			return true
		}
	}
	return false
}

func (fg *FnGen) loadIn(st *State, l *Loc) *Val {
	ls := layout(l.T)
	v := &Val{T: l.T}
	for _, leaf := range ls {
		comp := fg.compName(l, leaf)
		if fg.pass == 1 && isRefLeaf(leaf) {
			if fg.refComps == nil {
				fg.refComps = map[string]bool{}
			}
			fg.refComps[comp] = true
		}
		if l.Elem {
			a := fg.get(st, comp, ArrSort(ArrSort(leaf.Sort)))
			v.L = append(v.L, Select(Select(a, l.Arr), l.Idx))
		} else {
			a := fg.get(st, comp, ArrSort(leaf.Sort))
			v.L = append(v.L, Select(a, l.Base))
		}
	}
	return v
}

func (fg *FnGen) load(l *Loc) *Val {
	v := fg.loadIn(fg.cur, l)
	return v
}

func (fg *FnGen) store(l *Loc, v *Val, pos token.Pos) {
	ls := layout(l.T)
	if len(ls) != len(v.L) {
		panic(unsupported(fmt.Sprintf("store layout mismatch %s vs %s", l.T, v.T)))
	}
	fg.guardedStore(l, pos)
	for i, leaf := range ls {
		comp := fg.compName(l, leaf)
		fg.frameCheck(comp, l, pos)
		if l.Elem {
			a := fg.get(fg.cur, comp, ArrSort(ArrSort(leaf.Sort)))
			inner := Select(a, l.Arr)
			fg.set(comp, Store(a, l.Arr, Store(inner, l.Idx, v.L[i])))
		} else {
			a := fg.get(fg.cur, comp, ArrSort(leaf.Sort))
			fg.set(comp, Store(a, l.Base, v.L[i]))
		}
	}
}

// frameCheck: a write must be inside the declared modifies set or to memory allocated by this call.
func (fg *FnGen) frameCheck(comp string, l *Loc, pos token.Pos) {
	if fg.modAll || fg.c == nil {
		return
	}
	var alts []Term
	if l != nil {
		if l.Elem {
			alts = append(alts, Ge(l.Arr, fg.allocEntry))
		} else {
			alts = append(alts, Ge(l.Base, fg.allocEntry))
		}
	}
	for _, w := range fg.W {
		if w.comp != comp {
			continue
		}
		if w.whole {
			return
		}
		if l == nil {
			continue
		}
		if w.elem && l.Elem {
			if w.idx == nil {
				alts = append(alts, Eq(l.Arr, w.arr))
			} else {
				alts = append(alts, And(Eq(l.Arr, w.arr), Eq(l.Idx, *w.idx)))
			}
		} else if !w.elem && !l.Elem {
			alts = append(alts, Eq(l.Base, w.base))
		}
	}
	fg.oblige("frame", comp, Or(alts...), pos, "write outside the declared modifies set")
}

// ---------------------------------------------------------------------------------------
// loops

func (fg *FnGen) findLoops() {
	fg.loops = map[int]*loopInfo{}
	fg.inLoop = map[int][]*loopInfo{}
	for _, b := range fg.fn.Blocks {
		for _, s := range b.Succs {
			if s.Dominates(b) {
				li := fg.loops[s.Index]
				if li == nil {
					li = &loopInfo{header: s, body: map[int]bool{s.Index: true}}
					fg.loops[s.Index] = li
				}
				// natural loop of back edge b->s
				stack := []*ssa.BasicBlock{b}
				for len(stack) > 0 {
					n := stack[len(stack)-1]
					stack = stack[:len(stack)-1]
					if li.body[n.Index] {
						continue
					}
					li.body[n.Index] = true
					stack = append(stack, n.Preds...)
				}
			}
		}
	}
	var hs []int
	for h := range fg.loops {
		hs = append(hs, h)
	}
	sort.Ints(hs)
	for i, h := range hs {
		li := fg.loops[h]
		li.ordinal = i
		if fg.c != nil {
			li.lc = fg.c.Loops[i]
		}
		for b := range li.body {
			fg.inLoop[b] = append(fg.inLoop[b], li)
		}
	}
}

func (fg *FnGen) rpo() []*ssa.BasicBlock {
	var order []*ssa.BasicBlock
	seen := map[int]bool{}
	var dfs func(b *ssa.BasicBlock)
	dfs = func(b *ssa.BasicBlock) {
		seen[b.Index] = true
		for _, s := range b.Succs {
			if s.Dominates(b) { // back edge
				continue
			}
			if !seen[s.Index] {
				dfs(s)
			}
		}
		order = append(order, b)
	}
	if len(fg.fn.Blocks) > 0 {
		dfs(fg.fn.Blocks[0])
	}
	for i, j := 0, len(order)-1; i < j; i, j = i+1, j-1 {
		order[i], order[j] = order[j], order[i]
	}
	return order
}

// ---------------------------------------------------------------------------------------
// main driver for one function

func (fg *FnGen) generate() (err error) {
	// per-function registries: the queries of a function must not depend on which other functions were
	// processed before it (reproducibility; solver behaviour is sensitive to constant numbering)
	fg.g.typeIDs = map[string]int{}
	fg.g.strLits = map[string]int{}
	fg.findLoops()
	fg.collectDebugNames()
	fg.acMatched = map[int]bool{}
	defer func() {
		// an `at call` clause that matches no call site checks nothing: that is a hole in the contract (or the code
		// under contract no longer makes the call), never a silent pass
		if err == nil && fg.c != nil {
			for i, ac := range fg.c.AtCalls {
				if !fg.acMatched[i] && !ac.Optional {
					err = fmt.Errorf("contract error: `at call %s` matches no call site in %s (clause: %s)", ac.Callee, fg.key, ac.Clause.Src)
					return
				}
			}
		}
	}()
	for pass := 1; pass <= 2; pass++ {
		fg.g.typeIDs = map[string]int{}
		fg.g.strLits = map[string]int{}
		fg.reset(pass)
		if e := fg.run(); e != nil {
			return e
		}
		if pass == 1 {
			fg.loopMods = map[int]map[string]bool{}
			for h, li := range fg.loops {
				m := map[string]bool{}
				for b := range li.body {
					for c := range fg.written[b] {
						m[c] = true
					}
				}
				fg.loopMods[h] = m
			}
		}
	}
	return nil
}

func (fg *FnGen) run() (err error) {
	defer func() {
		if r := recover(); r != nil {
			if u, ok := r.(unsupported); ok {
				err = fmt.Errorf("out of reach: %s", string(u))
				return
			}
			panic(r)
		}
	}()
	fn := fg.fn
	c := fg.c
	fg.modAll = c == nil || c.ModAll || !c.HasMod
	fg.curReach = TTrue
	fg.cur = &State{ver: map[string]Term{}}
	fg.entry = fg.cur
	// pre-register components found in pass 1
	if fg.pass == 2 {
		for _, comp := range fg.compOrder {
			fg.get(fg.cur, comp, fg.compSorts[comp])
		}
	}
	fg.allocEntry = fg.get(fg.cur, "$alloc", SInt)
	fg.assertRaw(Gt(fg.allocEntry, IntLit(0)))
	if fg.pass == 2 {
		// entry heap invariant: every reference stored in the heap at entry points to an object that exists at
		// entry (needed under quantifiers, where the per-load facts are not available). Only for objects that exist
		// at entry: callees declared `fresh` allocate objects without re-versioning the caller's components.
		for _, comp := range fg.compOrder {
			if !fg.refComps[comp] || strings.Contains(comp, "local!") {
				continue
			}
			a := fg.cur.ver[comp]
			switch fg.compSorts[comp] {
			case ArrSort(SInt):
				fg.assertRaw(Term{fmt.Sprintf("(forall ((r! Int)) (! (=> (< r! %s) (< (select %s r!) %s)) :pattern ((select %s r!))))", fg.allocEntry.S, a.S, fg.allocEntry.S, a.S), SBool})
			case ArrSort(ArrSort(SInt)):
				fg.assertRaw(Term{fmt.Sprintf("(forall ((r! Int) (i! Int)) (! (=> (< r! %s) (< (select (select %s r!) i!) %s)) :pattern ((select (select %s r!) i!))))", fg.allocEntry.S, a.S, fg.allocEntry.S, a.S), SBool})
			}
		}
	}
	// parameters
	bindParam := func(p ssa.Value, name string) {
		v := &Val{T: p.Type()}
		for _, l := range layout(p.Type()) {
			v.L = append(v.L, fg.declare("p_"+name+l.Path, l.Sort))
		}
		fg.vals[p] = v
		fg.params[name] = v
		fg.assertRaw(fg.valFacts(v))
		fg.assertRaw(fg.allocFacts(v))
	}
	for i, p := range fn.Params {
		name := p.Name()
		if name == "" || name == "_" {
			name = fmt.Sprintf("p%d", i)
		}
		bindParam(p, name)
	}
	for _, fv := range fn.FreeVars {
		bindParam(fv, fv.Name())
	}
	fg.entry = fg.cur.clone()
	// ghost variables
	if c != nil {
		for _, gv := range c.Ghosts {
			comp := "ghost:" + gv.Name
			fg.ghosts[gv.Name] = comp
			if gv.Type == "intarray" {
				fg.ghostTypes[gv.Name] = ghostIntArray
			} else if T := fg.g.resolveTypeString(gv.Type, fnPkgPath(fg.fn)); T != nil {
				fg.ghostTypes[gv.Name] = T
			} else if gv.Type != "int" && gv.Type != "bool" {
				panic(unsupported("ghost variable " + gv.Name + ": cannot resolve type " + gv.Type))
			}
			env := fg.env(fg.cur, fg.entry, nil)
			iv := fg.evalC(gv.Init, env)
			fg.compSort(comp, iv.one().Sort)
			fg.cur.ver[comp] = iv.one()
		}
		fg.entry = fg.cur.clone()
		for _, l := range c.Lets {
			env := fg.env(fg.cur, fg.entry, nil)
			fg.lets[l.Name] = fg.evalC(l.Expr, env)
		}
		for _, r := range c.Requires {
			env := fg.env(fg.cur, fg.entry, nil)
			t := fg.evalBool(r.Expr, env)
			fg.assertRaw(t)
		}
		for _, r := range c.Assumes {
			env := fg.env(fg.cur, fg.entry, nil)
			t := fg.evalBool(r.Expr, env)
			fg.assertRaw(t)
			fg.note("ASSUMED (environment invariant, not checked at call sites) in " + fg.key + ": " + r.Src)
		}
		fg.declaredEvents = map[string]bool{}
		fg.deniedEvents = excludedEvents(c)
		for ev := range fg.deniedEvents {
			fg.compSort(ev, SInt)
		}
		for _, em := range c.Emits {
			fg.declaredEvents["cnt:"+em.Event] = true
		}
		for _, m := range c.Modifies {
			if _, ok := noCountEvent(m); ok {
				continue
			}
			if ev, ok := countEvent(m); ok {
				fg.declaredEvents["cnt:"+ev] = true
				if ev != "*" {
					fg.compSort("cnt:"+ev, SInt)
				}
				continue
			}
			if !fg.modAll {
				env := fg.env(fg.cur, fg.entry, nil)
				fg.W = append(fg.W, fg.evalMod(m, env)...)
			}
			if modMentionsNonHeap(m, c, fg) && !strings.HasPrefix(m.cstr(), "held(") {
				env := fg.env(fg.cur, fg.entry, nil)
				fg.GW = append(fg.GW, fg.evalMod(m, env)...)
			}
		}
		fg.entry = fg.cur.clone()
		// vacuity: the precondition must be satisfiable
		if fg.pass == 2 {
			fg.obls = append(fg.obls, &Obligation{Name: fg.g.shortPkg(fnPkgPath(fg.fn)) + "." + fg.key + "#cover.requires", Kind: "cover",
				Fn: fg.key, Desc: "precondition is satisfiable (vacuity guard)", Guard: TTrue, Goal: TFalse,
				NAsserts: len(fg.asserts), NDecls: len(fg.decls), fg: fg, Vacuity: true})
		}
	}
	if len(fn.Blocks) == 0 {
		return fmt.Errorf("function has no body")
	}
	order := fg.rpo()
	for _, b := range order {
		fg.block(b)
	}
	return nil
}

func (fg *FnGen) block(b *ssa.BasicBlock) {
	fg.curBlock = b
	// forward predecessors
	var fpreds []*ssa.BasicBlock
	for _, p := range b.Preds {
		if b.Dominates(p) && fg.loops[b.Index] != nil {
			continue // back edge
		}
		if _, ok := fg.endState[p.Index]; !ok {
			continue // unreachable predecessor
		}
		fpreds = append(fpreds, p)
	}
	if b.Index == 0 {
		fg.reach[0] = TTrue
		fg.curReach = TTrue
	} else {
		if len(fpreds) == 0 {
			return // unreachable
		}
		var es []Term
		for _, p := range fpreds {
			es = append(es, fg.edges[[2]int{p.Index, b.Index}])
		}
		r := fg.declare(fmt.Sprintf("reach!%d", b.Index), SBool)
		fg.assertRaw(Eq(r, Or(es...)))
		fg.reach[b.Index] = r
		fg.curReach = r
		if li := fg.loops[b.Index]; li != nil {
			fg.loopHead(b, li, fpreds)
		} else {
			fg.cur = fg.join(b, fpreds)
			for _, ins := range b.Instrs {
				phi, ok := ins.(*ssa.Phi)
				if !ok {
					break
				}
				nv := &Val{T: phi.Type()}
				ls := layout(phi.Type())
				for _, l := range ls {
					nv.L = append(nv.L, fg.declare(phi.Name()+l.Path, l.Sort))
				}
				for _, p := range fpreds {
					k := predIndex(b, p)
					in := fg.val(phi.Edges[k])
					if in.Loc != nil {
						panic(unsupported("phi of interior pointers"))
					}
					e := fg.edges[[2]int{p.Index, b.Index}]
					for i := range ls {
						fg.assertRaw(Implies(e, Eq(nv.L[i], in.L[i])))
					}
				}
				fg.vals[phi] = nv
			}
		}
	}
	for i, ins := range b.Instrs {
		if _, ok := ins.(*ssa.Phi); ok {
			continue
		}
		fg.curInstrIdx = i
		fg.instr(ins)
	}
	fg.endState[b.Index] = fg.cur
}

func predIndex(b, p *ssa.BasicBlock) int {
	for i, q := range b.Preds {
		if q == p {
			return i
		}
	}
	return -1
}

func (fg *FnGen) loopHead(b *ssa.BasicBlock, li *loopInfo, fpreds []*ssa.BasicBlock) {
	// 1. invariant on entry edges
	for _, p := range fpreds {
		e := fg.edges[[2]int{p.Index, b.Index}]
		fg.checkInvariant(li, fg.endState[p.Index], p, e, "entry")
	}
	// 2. havoc
	fg.cur = fg.join(b, fpreds)
	pre := fg.cur.clone()
	if fg.pass == 1 {
		cb := fg.curBlock
		fg.curBlock = nil // the pass-1 havoc itself is not a write of the loop body
		savedCC := fg.curCC
		fg.curCC = nil
		fg.havocAll("loop head (pass 1)")
		fg.curCC = savedCC
		fg.curBlock = cb
	} else {
		mods := fg.loopMods[b.Index]
		if mods["$all"] {
			savedCC := fg.curCC
			fg.curCC = nil
			fg.havocAll("loop body havocs everything")
			fg.curCC = savedCC
			// stable components are kept by havocAll; those the body (or a writer it calls) stores to are not
			for _, comp := range sortedKeys(mods) {
				if _, ok := fg.compSorts[comp]; ok && fg.g.isStableComp(comp) {
					fg.havocComp(comp)
				}
			}
			// ghost variables and lock ownership are not touched by havocAll (callees cannot see them),
			// but the loop body itself may have changed them
			for _, comp := range sortedKeys(mods) {
				if _, ok := fg.compSorts[comp]; ok && isNonHeapComp(comp) {
					oldv := fg.get(fg.cur, comp, fg.compSorts[comp])
					fg.havocComp(comp)
					if strings.HasPrefix(comp, "cnt:") {
						fg.assume(Ge(fg.cur.ver[comp], oldv))
					}
				}
			}
		} else {
			oldAlloc := fg.allocCur()
			for _, comp := range sortedKeys(mods) {
				if _, ok := fg.compSorts[comp]; !ok {
					continue
				}
				oldv := fg.get(fg.cur, comp, fg.compSorts[comp])
				fg.havocLoopComp(comp, pre)
				if strings.HasPrefix(comp, "cnt:") {
					fg.assume(Ge(fg.cur.ver[comp], oldv))
				}
			}
			if mods["$alloc"] {
				fg.assume(Ge(fg.allocCur(), oldAlloc))
			}
		}
	}
	for _, ins := range b.Instrs {
		phi, ok := ins.(*ssa.Phi)
		if !ok {
			break
		}
		nv := &Val{T: phi.Type()}
		for _, l := range layout(phi.Type()) {
			nv.L = append(nv.L, fg.declare(phi.Name()+l.Path, l.Sort))
		}
		fg.vals[phi] = nv
		fg.assume(fg.valFacts(nv))
		fg.assume(fg.allocFacts(nv))
		if lo, bound, ok := monotonePhi(phi, li); ok {
			// structural fact about counted loops (range index / for i := c; i+k < N): the phi starts at the
			// constant c, is only incremented by a positive constant, and every back edge is guarded by
			// (phi+k) < N with N loop-invariant; hence c <= phi and (phi == c or phi < N)
			fg.assume(Ge(nv.L[0], IntLit(lo)))
			if bound != nil {
				fg.assume(Or(Eq(nv.L[0], IntLit(lo)), Lt(nv.L[0], fg.val(bound).one())))
			}
		}
	}
	// iteration-local ghosts restart from their initial value
	if fg.c != nil {
		for _, gv := range fg.c.Ghosts {
			if gv.Iter {
				env := fg.env(fg.cur, fg.entry, nil)
				fg.cur.ver["ghost:"+gv.Name] = fg.evalC(gv.Init, env).one()
			}
		}
	}
	// 3. assume invariant
	li.hdrState = fg.cur.clone()
	if li.lc != nil {
		for _, inv := range li.lc.Invariants {
			env := fg.env(fg.cur, fg.entry, nil)
			env.loop = li
			fg.assume(fg.evalBool(inv.Expr, env))
		}
		li.measures = nil
		for _, d := range li.lc.Decreases {
			env := fg.env(fg.cur, fg.entry, nil)
			env.loop = li
			m := fg.evalC(d, env).one()
			mc := fg.fresh("measure", SInt)
			fg.assertRaw(Eq(mc, m))
			li.measures = append(li.measures, mc)
		}
	}
}

// havocLoopComp havocs a component at a loop head, keeping what the frame guarantees.
func (fg *FnGen) havocLoopComp(comp string, pre *State) {
	fg.havocComp(comp)
	if fg.modAll || strings.HasPrefix(comp, "$") || strings.HasPrefix(comp, "cnt:") || strings.HasPrefix(comp, "ghost:") || strings.HasPrefix(comp, "held:") || strings.HasPrefix(comp, "obs:") {
		return
	}
	// frame: outside W and outside freshly allocated memory the component equals its entry version
	sort := fg.compSorts[comp]
	newv := fg.cur.ver[comp]
	oldv, ok := fg.entry.ver[comp]
	if !ok {
		return
	}
	var excl []Term
	r := Term{"r!", SInt}
	excl = append(excl, Lt(r, fg.allocEntry))
	for _, w := range fg.W {
		if w.comp != comp {
			continue
		}
		if w.whole {
			return
		}
		if w.elem {
			excl = append(excl, Not(Eq(r, w.arr)))
		} else {
			excl = append(excl, Not(Eq(r, w.base)))
		}
	}
	_ = sort
	body := Implies(And(excl...), Eq(Select(newv, r), Select(oldv, r)))
	q := Term{fmt.Sprintf("(forall ((r! Int)) (! %s :pattern (%s)))", body.S, Select(newv, r).S), SBool}
	fg.assume(q)
}

func (fg *FnGen) checkInvariant(li *loopInfo, st *State, from *ssa.BasicBlock, edge Term, kind string) {
	if li.lc == nil {
		return
	}
	subst := map[ssa.Value]*Val{}
	k := predIndex(li.header, from)
	for _, ins := range li.header.Instrs {
		phi, ok := ins.(*ssa.Phi)
		if !ok {
			break
		}
		subst[phi] = fg.val(phi.Edges[k])
	}
	saveCur, saveReach := fg.cur, fg.curReach
	fg.cur = st
	fg.curReach = edge
	for i, inv := range li.lc.Invariants {
		env := fg.env(st, fg.entry, nil)
		env.loop = li
		env.subst = subst
		t := fg.evalBool(inv.Expr, env)
		label := inv.Label
		if label == "" {
			label = fmt.Sprintf("%d", i)
		}
		fg.obligeG("inv."+kind, fmt.Sprintf("loop%d.%s", li.ordinal, label), edge, t, li.header.Instrs[0].Pos(), "loop invariant ("+kind+"): "+inv.Src)
	}
	if kind == "preserved" && len(li.measures) > 0 {
		var ms []Term
		for _, d := range li.lc.Decreases {
			env := fg.env(st, fg.entry, nil)
			env.loop = li
			env.subst = subst
			ms = append(ms, fg.evalC(d, env).one())
		}
		// lexicographic decrease, bounded below by 0
		var dec Term = TFalse
		for i := len(ms) - 1; i >= 0; i-- {
			lt := And(Lt(ms[i], li.measures[i]), Ge(li.measures[i], IntLit(0)))
			if i == len(ms)-1 {
				dec = lt
			} else {
				dec = Or(lt, And(Eq(ms[i], li.measures[i]), dec))
			}
		}
		fg.obligeG("dec", fmt.Sprintf("loop%d", li.ordinal), edge, dec, li.header.Instrs[0].Pos(), "loop variant decreases and is bounded below")
	}
	fg.cur, fg.curReach = saveCur, saveReach
}

// noCountEvent recognises a `nocount(ev)` modifies entry: with count(*), every event except ev.
func noCountEvent(e CExpr) (string, bool) {
	if c, ok := e.(*CCall); ok {
		if id, ok := c.Fn.(*CIdent); ok && id.Name == "nocount" && len(c.Args) == 1 {
			return c.Args[0].cstr(), true
		}
	}
	return "", false
}

// excludedEvents: the nocount(ev) entries of a contract.
func excludedEvents(c *Contract) map[string]bool {
	var m map[string]bool
	for _, e := range c.Modifies {
		if ev, ok := noCountEvent(e); ok {
			if m == nil {
				m = map[string]bool{}
			}
			m["cnt:"+ev] = true
		}
	}
	return m
}

// countEvent recognises a `count(ev)` modifies entry.
func countEvent(e CExpr) (string, bool) {
	if c, ok := e.(*CCall); ok {
		if id, ok := c.Fn.(*CIdent); ok && id.Name == "count" && len(c.Args) == 1 {
			return c.Args[0].cstr(), true
		}
	}
	return "", false
}

// monotonePhi recognises phi = [entry: const c, back edges: phi + positive const k] where the header
// ends in `if (phi+k) < N` whose true branch dominates every back edge source and N is loop-invariant.
func monotonePhi(phi *ssa.Phi, li *loopInfo) (int64, ssa.Value, bool) {
	if !isIntType(phi.Type()) {
		return 0, nil, false
	}
	hdr := phi.Block()
	var lo int64
	seenConst := false
	var inc *ssa.BinOp
	for i, e := range phi.Edges {
		pred := hdr.Preds[i]
		if li.body[pred.Index] && hdr.Dominates(pred) {
			b, ok := e.(*ssa.BinOp)
			if !ok || b.Op != token.ADD || b.X != ssa.Value(phi) || b.Block() != hdr {
				return 0, nil, false
			}
			c, ok := b.Y.(*ssa.Const)
			if !ok || c.Value == nil {
				return 0, nil, false
			}
			if v, ok := constant.Int64Val(c.Value); !ok || v <= 0 {
				return 0, nil, false
			}
			if inc != nil && inc != b {
				return 0, nil, false
			}
			inc = b
		} else {
			c, ok := e.(*ssa.Const)
			if !ok || c.Value == nil {
				return 0, nil, false
			}
			v, ok := constant.Int64Val(c.Value)
			if !ok {
				return 0, nil, false
			}
			if !seenConst || v < lo {
				lo = v
			}
			seenConst = true
		}
	}
	if !seenConst || inc == nil {
		return 0, nil, false
	}
	// header terminator: if inc < N goto body else exit
	ifi, ok := hdr.Instrs[len(hdr.Instrs)-1].(*ssa.If)
	if !ok {
		return 0, nil, false
	}
	cmp, ok := ifi.Cond.(*ssa.BinOp)
	if !ok || cmp.Op != token.LSS || cmp.X != ssa.Value(inc) {
		return 0, nil, false
	}
	if ins, isIns := cmp.Y.(ssa.Instruction); isIns && li.body[ins.Block().Index] {
		return 0, nil, false // bound not loop-invariant
	}
	body := hdr.Succs[0]
	for i := range phi.Edges {
		pred := hdr.Preds[i]
		if li.body[pred.Index] && hdr.Dominates(pred) && !body.Dominates(pred) {
			return 0, nil, false
		}
	}
	return lo, cmp.Y, true
}
