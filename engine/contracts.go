package main

// Contract files: //@ blocks in <pkg>/zz_contracts_verif.go (build tag verif) inside /repo and
// in /verif/specs/*.spec for code outside the repository (assumed, never proved).

import (
	"fmt"
	"os"
	"regexp"
	"sort"
	"strconv"
	"strings"
)

type Clause struct {
	Label string
	Src   string
	Expr  CExpr
	Def   bool // definitional axiom (defines): assumed at call sites, not checked in the body
}

type LoopContract struct {
	Ordinal    int
	Invariants []Clause
	Decreases  []CExpr
	MayDiverge bool
}

type AtCall struct {
	Callee string // substring match on callee key
	Kind   string // "assert" | "ghost"
	Clause Clause
	// ghost: Target = ghost var, Expr = new value
	Target string
	Optional bool // `at call?`: need not match a call site
}

type Emit struct {
	Event string
	When  CExpr // nil: always
	Delta CExpr // nil: 1
}

type GhostVar struct {
	Name string
	Type string // int | bool
	Init CExpr
	Iter bool // reset to its initial value at every loop head (iteration-local)
}

type Contract struct {
	Key      string // "T.method" | "func" | "Outer$1"; for external: "<pkgpath>.T.method"
	PkgPath  string
	File     string
	Line     int
	Requires []Clause
	Assumes  []Clause // environment assumptions (plan/object invariants): assumed at entry, NOT checked at call sites, listed in the evidence
	Ensures  []Clause
	Modifies []CExpr
	ModAll   bool // "modifies *" or no modifies clause at all
	HasMod   bool
	Pure     bool
	Arith    string // "" (wrapping, exact) | "checked"
	Safety   map[string]bool
	Loops    map[int]*LoopContract
	Lets     []struct {
		Name string
		Expr CExpr
	}
	Emits    []Emit
	Trusted  string // non-empty: body is not verified (assumed contract)
	AtCalls  []AtCall
	Ghosts   []GhostVar
	External bool
	Fresh    bool     // result is freshly allocated
	Params   []string // optional explicit parameter names (external functions)
	Holds    []string // mutexes that must be held at entry (also emitted as requires)
	Callbacks []string // parameters that are function values the callee may invoke (and does nothing else with)
	Acquires []CExpr
	Releases []CExpr
	Raw      []string
}

type SpecFunc struct {
	Name    string
	PkgPath string
	Params  []struct{ Name, Type string }
	Result  string
	Body    CExpr // nil: uninterpreted
	Src     string
	Rec     bool
}

type Decl struct {
	Kind    string // guarded | lockinv | monotone | chaninv | closeperm
	PkgPath string
	Args    []string
	Expr    CExpr
	Src     string
}

type ContractSet struct {
	ByKey map[string]*Contract // pkgpath + "::" + key
	Specs map[string]*SpecFunc // pkgpath + "::" + name, and bare name for /verif/specs
	Decls []*Decl
	Files []string
}

func newContractSet() *ContractSet {
	return &ContractSet{ByKey: map[string]*Contract{}, Specs: map[string]*SpecFunc{}}
}

var clauseKeywords = map[string]bool{
	"requires": true, "ensures": true, "assumes": true, "modifies": true, "arith": true, "safety": true, "loop": true,
	"invariant": true, "decreases": true, "let": true, "pure": true, "trusted": true, "emits": true,
	"at": true, "maydiverge": true, "ghost": true, "fresh": true, "params": true, "holds": true,
	"acquires": true, "releases": true, "callback": true, "defines": true,
}

var labelRe = regexp.MustCompile(`^\{([A-Za-z0-9_.\-]+)\}\s*(.*)$`)

func splitLabel(s string) (string, string) {
	if m := labelRe.FindStringSubmatch(s); m != nil {
		return m[1], m[2]
	}
	return "", s
}

// parseContractFile reads all //@ lines of a file.
func (cs *ContractSet) parseContractFile(path, pkgPath string, external bool) error {
	data, err := os.ReadFile(path)
	if err != nil {
		return err
	}
	cs.Files = append(cs.Files, path)
	type ln struct {
		text string
		no   int
	}
	var lines []ln
	for i, l := range strings.Split(string(data), "\n") {
		t := strings.TrimSpace(l)
		if external {
			// spec files: every non-empty, non-# line is a contract line; "//@" prefix optional
			if t == "" || strings.HasPrefix(t, "#") {
				continue
			}
			t = strings.TrimSpace(strings.TrimPrefix(t, "//@"))
		} else {
			if !strings.HasPrefix(t, "//@") {
				continue
			}
			t = strings.TrimSpace(strings.TrimPrefix(t, "//@"))
		}
		if t == "" {
			continue
		}
		// strip trailing " // comment"
		if k := strings.Index(t, " // "); k >= 0 {
			t = strings.TrimSpace(t[:k])
		}
		lines = append(lines, ln{t, i + 1})
	}
	// join continuation lines
	var joined []ln
	for _, l := range lines {
		first := strings.Fields(l.text)[0]
		first = strings.TrimSuffix(first, ":")
		isKw := clauseKeywords[first] || first == "func" || first == "spec" || first == "decl" || first == "package"
		if !isKw && len(joined) > 0 {
			joined[len(joined)-1].text += " " + l.text
			continue
		}
		joined = append(joined, l)
	}
	var cur *Contract
	var curLoop *LoopContract
	fail := func(l ln, f string, a ...any) error {
		return fmt.Errorf("%s:%d: %s", path, l.no, fmt.Sprintf(f, a...))
	}
	for _, l := range joined {
		fields := strings.Fields(l.text)
		kw := strings.TrimSuffix(fields[0], ":")
		rest := strings.TrimSpace(l.text[len(fields[0]):])
		switch kw {
		case "package":
			pkgPath = rest
			cur = nil
		case "func":
			key := strings.TrimSpace(rest)
			cur = &Contract{Key: key, PkgPath: pkgPath, File: path, Line: l.no, Loops: map[int]*LoopContract{},
				Safety: map[string]bool{}, External: external}
			curLoop = nil
			k := pkgPath + "::" + key
			if _, dup := cs.ByKey[k]; dup {
				return fail(l, "duplicate contract for %s", k)
			}
			cs.ByKey[k] = cur
		case "spec":
			sf, err := parseSpecFunc(rest)
			if err != nil {
				return fail(l, "%v", err)
			}
			sf.PkgPath = pkgPath
			cs.Specs[sf.Name] = sf
			cur = nil
		case "decl":
			d := &Decl{PkgPath: pkgPath, Src: rest}
			fs := strings.Fields(rest)
			if len(fs) < 2 {
				return fail(l, "bad decl")
			}
			d.Kind = fs[0]
			if i := strings.Index(rest, ":"); i >= 0 && (d.Kind == "lockinv" || d.Kind == "chaninv") {
				d.Args = strings.Fields(rest[len(fs[0]):i])
				e, err := parseCExpr(rest[i+1:])
				if err != nil {
					return fail(l, "%v", err)
				}
				d.Expr = e
			} else {
				d.Args = fs[1:]
			}
			cs.Decls = append(cs.Decls, d)
			cur = nil
		default:
			if cur == nil {
				return fail(l, "clause %q outside a func block", kw)
			}
			cur.Raw = append(cur.Raw, l.text)
			switch kw {
			case "assumes":
				label, src := splitLabel(rest)
				e, err := parseCExpr(src)
				if err != nil {
					return fail(l, "%v", err)
				}
				cur.Assumes = append(cur.Assumes, Clause{Label: label, Src: src, Expr: e})
			case "defines":
				// definitional axiom of a pure function: names its result with uninterpreted spec functions
				// (result == f(args)); assumed at call sites like a postcondition, not an obligation of the body.
				label, src := splitLabel(rest)
				e, err := parseCExpr(src)
				if err != nil {
					return fail(l, "%v", err)
				}
				cur.Ensures = append(cur.Ensures, Clause{Label: label, Src: src, Expr: e, Def: true})
			case "requires", "ensures", "invariant":
				label, src := splitLabel(rest)
				e, err := parseCExpr(src)
				if err != nil {
					return fail(l, "%v", err)
				}
				c := Clause{Label: label, Src: src, Expr: e}
				switch kw {
				case "requires":
					cur.Requires = append(cur.Requires, c)
				case "ensures":
					cur.Ensures = append(cur.Ensures, c)
				case "invariant":
					if curLoop == nil {
						return fail(l, "invariant outside loop")
					}
					curLoop.Invariants = append(curLoop.Invariants, c)
				}
			case "modifies":
				cur.HasMod = true
				if rest == "*" {
					cur.ModAll = true
					break
				}
				if strings.HasPrefix(rest, "*,") {
					cur.ModAll = true
					rest = strings.TrimSpace(rest[2:])
				}
				for _, part := range splitTopLevel(rest, ',') {
					e, err := parseCExpr(part)
					if err != nil {
						return fail(l, "%v", err)
					}
					cur.Modifies = append(cur.Modifies, e)
				}
			case "pure":
				cur.Pure = true
				cur.HasMod = true
			case "fresh":
				cur.Fresh = true
			case "params":
				cur.Params = strings.Fields(strings.ReplaceAll(rest, ",", " "))
			case "arith":
				cur.Arith = rest
			case "safety":
				for _, s := range strings.Fields(strings.ReplaceAll(rest, ",", " ")) {
					cur.Safety[s] = true
				}
			case "trusted":
				cur.Trusted = rest
				if cur.Trusted == "" {
					cur.Trusted = "trusted"
				}
			case "loop":
				n, err := strconv.Atoi(strings.TrimSuffix(strings.TrimSpace(rest), ":"))
				if err != nil {
					return fail(l, "bad loop ordinal %q", rest)
				}
				curLoop = &LoopContract{Ordinal: n}
				cur.Loops[n] = curLoop
			case "decreases":
				if curLoop == nil {
					return fail(l, "decreases outside loop")
				}
				for _, part := range splitTopLevel(rest, ',') {
					e, err := parseCExpr(part)
					if err != nil {
						return fail(l, "%v", err)
					}
					curLoop.Decreases = append(curLoop.Decreases, e)
				}
			case "maydiverge":
				if curLoop == nil {
					return fail(l, "maydiverge outside loop")
				}
				curLoop.MayDiverge = true
			case "let":
				i := strings.Index(rest, "=")
				if i < 0 {
					return fail(l, "bad let")
				}
				e, err := parseCExpr(rest[i+1:])
				if err != nil {
					return fail(l, "%v", err)
				}
				cur.Lets = append(cur.Lets, struct {
					Name string
					Expr CExpr
				}{strings.TrimSpace(rest[:i]), e})
			case "emits":
				// emits ev [by expr] [when expr]
				em := Emit{}
				r := rest
				if i := strings.Index(r, " when "); i >= 0 {
					e, err := parseCExpr(r[i+6:])
					if err != nil {
						return fail(l, "%v", err)
					}
					em.When = e
					r = r[:i]
				}
				if i := strings.Index(r, " by "); i >= 0 {
					e, err := parseCExpr(r[i+4:])
					if err != nil {
						return fail(l, "%v", err)
					}
					em.Delta = e
					r = r[:i]
				}
				em.Event = strings.TrimSpace(r)
				cur.Emits = append(cur.Emits, em)
			case "callback":
				cur.Callbacks = append(cur.Callbacks, strings.TrimSpace(rest))
			case "holds":
				cur.Holds = append(cur.Holds, rest)
			case "acquires", "releases":
				e, err := parseCExpr(rest)
				if err != nil {
					return fail(l, "%v", err)
				}
				if kw == "acquires" {
					cur.Acquires = append(cur.Acquires, e)
				} else {
					cur.Releases = append(cur.Releases, e)
				}
			case "ghost":
				// ghost var name type = expr
				iter := false
				if strings.HasPrefix(rest, "itervar") {
					iter = true
					rest = "var" + strings.TrimPrefix(rest, "itervar")
				}
				m := regexp.MustCompile(`^var\s+(\w+)\s+([\w.*\[\]]+)\s*=\s*(.*)$`).FindStringSubmatch(rest)
				if m == nil {
					return fail(l, "bad ghost declaration")
				}
				e, err := parseCExpr(m[3])
				if err != nil {
					return fail(l, "%v", err)
				}
				cur.Ghosts = append(cur.Ghosts, GhostVar{Name: m[1], Type: m[2], Init: e, Iter: iter})
			case "at":
				// at call <callee-substring>: assert {label} expr
				// at call <callee-substring>: ghost name = expr
				// at call <callee-substring>: assume {label} expr - an environment assumption stated at the call (before it), NOT checked, listed in the evidence
				// `at call? X: ...` - optional: the clause speaks about a call the code need not make (e.g. the lossy variant
				// of an API); every other at-call clause must match a call site, or the contract is rejected
				optional := false
				if strings.HasPrefix(rest, "call?") {
					optional = true
					rest = "call" + strings.TrimPrefix(rest, "call?")
				}
				m := regexp.MustCompile(`^call\s+(\S+?):\s*(assert|assume|lemma|ghostpre|ghost)\s+(.*)$`).FindStringSubmatch(rest)
				if m == nil {
					return fail(l, "bad at-call clause")
				}
				ac := AtCall{Callee: m[1], Kind: m[2], Optional: optional}
				body := m[3]
				if ac.Kind == "ghost" || ac.Kind == "ghostpre" {
					i := strings.Index(body, "=")
					if i < 0 {
						return fail(l, "bad ghost update")
					}
					ac.Target = strings.TrimSpace(body[:i])
					if strings.HasSuffix(ac.Target, "!") || strings.HasSuffix(ac.Target, "=") || strings.HasSuffix(ac.Target, "<") || strings.HasSuffix(ac.Target, ">") {
						return fail(l, "bad ghost update target")
					}
					body = body[i+1:]
				}
				label, src := splitLabel(strings.TrimSpace(body))
				e, err := parseCExpr(src)
				if err != nil {
					return fail(l, "%v", err)
				}
				ac.Clause = Clause{Label: label, Src: src, Expr: e}
				cur.AtCalls = append(cur.AtCalls, ac)
			default:
				return fail(l, "unknown clause %q", kw)
			}
		}
	}
	return nil
}

func splitTopLevel(s string, sep byte) []string {
	var parts []string
	depth := 0
	start := 0
	for i := 0; i < len(s); i++ {
		switch s[i] {
		case '(', '[':
			depth++
		case ')', ']':
			depth--
		default:
			if s[i] == sep && depth == 0 {
				parts = append(parts, strings.TrimSpace(s[start:i]))
				start = i + 1
			}
		}
	}
	if strings.TrimSpace(s[start:]) != "" {
		parts = append(parts, strings.TrimSpace(s[start:]))
	}
	return parts
}

var specRe = regexp.MustCompile(`^(rec\s+)?(\w+)\s*\(([^)]*)\)\s*([\w.*\[\]]+)\s*(=\s*(.*))?$`)

func parseSpecFunc(s string) (*SpecFunc, error) {
	m := specRe.FindStringSubmatch(s)
	if m == nil {
		return nil, fmt.Errorf("bad spec function declaration %q", s)
	}
	sf := &SpecFunc{Name: m[2], Result: m[4], Src: s, Rec: m[1] != ""}
	for _, p := range splitTopLevel(m[3], ',') {
		fs := strings.Fields(p)
		if len(fs) != 2 {
			return nil, fmt.Errorf("bad spec parameter %q", p)
		}
		sf.Params = append(sf.Params, struct{ Name, Type string }{fs[0], fs[1]})
	}
	if m[6] != "" {
		e, err := parseCExpr(m[6])
		if err != nil {
			return nil, err
		}
		sf.Body = e
	}
	return sf, nil
}

func (cs *ContractSet) sortedKeys() []string {
	var ks []string
	for k := range cs.ByKey {
		ks = append(ks, k)
	}
	sort.Strings(ks)
	return ks
}
