package main

// SMT-LIB2 term construction and the solver portfolio.

import (
	"bytes"
	"context"
	"fmt"
	"os"
	"os/exec"
	"path/filepath"
	"strings"
	"sync"
	"time"
)

// Sort is an SMT sort written out as text ("Int", "Bool", "(Array Int Int)", ...).
type Sort string

const (
	SInt  Sort = "Int"
	SBool Sort = "Bool"
)

func ArrSort(elem Sort) Sort { return Sort("(Array Int " + string(elem) + ")") }

// Term is an SMT term as text with its sort.
type Term struct {
	S    string
	Sort Sort
}

func (t Term) String() string { return t.S }

func IntLit(n int64) Term {
	if n < 0 {
		return Term{fmt.Sprintf("(- %d)", -n), SInt}
	}
	return Term{fmt.Sprintf("%d", n), SInt}
}

func BigLit(s string) Term {
	if strings.HasPrefix(s, "-") {
		return Term{"(- " + s[1:] + ")", SInt}
	}
	return Term{s, SInt}
}

var (
	TTrue  = Term{"true", SBool}
	TFalse = Term{"false", SBool}
)

func BoolLit(b bool) Term {
	if b {
		return TTrue
	}
	return TFalse
}

func app(op string, sort Sort, args ...Term) Term {
	var sb strings.Builder
	sb.WriteByte('(')
	sb.WriteString(op)
	for _, a := range args {
		sb.WriteByte(' ')
		sb.WriteString(a.S)
	}
	sb.WriteByte(')')
	return Term{sb.String(), sort}
}

func And(ts ...Term) Term {
	var xs []Term
	for _, t := range ts {
		if t.S == "true" {
			continue
		}
		if t.S == "false" {
			return TFalse
		}
		xs = append(xs, t)
	}
	switch len(xs) {
	case 0:
		return TTrue
	case 1:
		return xs[0]
	}
	return app("and", SBool, xs...)
}

func Or(ts ...Term) Term {
	var xs []Term
	for _, t := range ts {
		if t.S == "false" {
			continue
		}
		if t.S == "true" {
			return TTrue
		}
		xs = append(xs, t)
	}
	switch len(xs) {
	case 0:
		return TFalse
	case 1:
		return xs[0]
	}
	return app("or", SBool, xs...)
}

func Not(t Term) Term {
	if t.S == "true" {
		return TFalse
	}
	if t.S == "false" {
		return TTrue
	}
	return app("not", SBool, t)
}

func Implies(a, b Term) Term {
	if a.S == "true" {
		return b
	}
	if a.S == "false" || b.S == "true" {
		return TTrue
	}
	return app("=>", SBool, a, b)
}

func Eq(a, b Term) Term {
	if a.S == b.S {
		return TTrue
	}
	return app("=", SBool, a, b)
}

func Ite(c, a, b Term) Term {
	if c.S == "true" {
		return a
	}
	if c.S == "false" {
		return b
	}
	if a.S == b.S {
		return a
	}
	return app("ite", a.Sort, c, a, b)
}

func Add(a, b Term) Term {
	// off + (J - off) == J (change of variable of quantified slice indices, see quantParts)
	if strings.HasPrefix(b.S, "(- ") && strings.HasSuffix(b.S, " "+a.S+")") {
		inner := b.S[3 : len(b.S)-len(a.S)-2]
		if balanced(inner) && !strings.Contains(inner, " ") {
			return Term{inner, SInt}
		}
	}
	return app("+", SInt, a, b)
}

func balanced(s string) bool {
	d := 0
	for _, c := range s {
		switch c {
		case '(':
			d++
		case ')':
			d--
			if d < 0 {
				return false
			}
		}
	}
	return d == 0
}
func Sub(a, b Term) Term { return app("-", SInt, a, b) }
func Mul(a, b Term) Term { return app("*", SInt, a, b) }
func Lt(a, b Term) Term  { return app("<", SBool, a, b) }
func Le(a, b Term) Term  { return app("<=", SBool, a, b) }
func Gt(a, b Term) Term  { return app(">", SBool, a, b) }
func Ge(a, b Term) Term  { return app(">=", SBool, a, b) }

func Select(arr, idx Term) Term {
	s := string(arr.Sort)
	// (Array Int X) -> X
	elem := Sort(strings.TrimSuffix(strings.TrimPrefix(s, "(Array Int "), ")"))
	return app("select", elem, arr, idx)
}

func Store(arr, idx, v Term) Term { return app("store", arr.Sort, arr, idx, v) }

// sym quotes an arbitrary string as an SMT symbol.
func sym(s string) string {
	ok := true
	for _, c := range s {
		if !(c >= 'a' && c <= 'z' || c >= 'A' && c <= 'Z' || c >= '0' && c <= '9' || c == '_' || c == '.' || c == '$' || c == '@' || c == '!' || c == '#') {
			ok = false
			break
		}
	}
	if ok && len(s) > 0 && !(s[0] >= '0' && s[0] <= '9') {
		return s
	}
	s = strings.ReplaceAll(s, "|", "!")
	s = strings.ReplaceAll(s, "\\", "!")
	return "|" + s + "|"
}

// ---------------------------------------------------------------------------------------
// Solver portfolio

type SolverResult struct {
	Result string // unsat | sat | unknown | timeout | error
	Solver string
	Ms     int64
	Output string
	Model  string
}

type solverSpec struct {
	name string
	argv func(file string, timeoutS int) []string
}

var solverSpecs = []solverSpec{
	{"z3-new-5.1.0", func(f string, t int) []string { return []string{"z3-new", fmt.Sprintf("-T:%d", t), f} }},
	{"z3-4.8.12", func(f string, t int) []string { return []string{"z3", fmt.Sprintf("-T:%d", t), f} }},
	// same solver, legacy simplex arithmetic: decides some quantified array/arithmetic goals the default core times out on
	{"z3-new-5.1.0/arith.solver=2", func(f string, t int) []string {
		return []string{"z3-new", fmt.Sprintf("-T:%d", t), "smt.arith.solver=2", f}
	}},
	{"cvc5-1.0", func(f string, t int) []string {
		return []string{"cvc5", "--incremental", fmt.Sprintf("--tlimit=%d", t*1000), f}
	}},
}

var solverAvail = map[string]bool{}
var solverAvailOnce sync.Once

func checkSolvers() {
	solverAvailOnce.Do(func() {
		for _, s := range solverSpecs {
			argv := s.argv("x", 1)
			if _, err := exec.LookPath(argv[0]); err == nil {
				solverAvail[s.name] = true
			}
		}
	})
}

// runPortfolio races the installed solvers on one query. wantModel: the query contains
// (get-model) after (check-sat). First definite answer (unsat/sat) wins.
// runRetry: sequential second chance with several random seeds of the z3 configurations in parallel.
func runRetry(dir, name, query string, timeoutS int) SolverResult {
	checkSolvers()
	file := filepath.Join(dir, name+".smt2")
	if err := os.WriteFile(file, []byte(query), 0o644); err != nil {
		return SolverResult{Result: "error", Output: err.Error()}
	}
	type cfg struct {
		name string
		argv []string
	}
	var cfgs []cfg
	for _, seed := range []int{0, 1, 2, 3} {
		cfgs = append(cfgs, cfg{fmt.Sprintf("z3-new-5.1.0/seed%d", seed), []string{"z3-new", fmt.Sprintf("-T:%d", timeoutS), fmt.Sprintf("smt.random_seed=%d", seed), file}})
		cfgs = append(cfgs, cfg{fmt.Sprintf("z3-new-5.1.0/arith.solver=2/seed%d", seed), []string{"z3-new", fmt.Sprintf("-T:%d", timeoutS), "smt.arith.solver=2", fmt.Sprintf("smt.random_seed=%d", seed), file}})
	}
	cfgs = append(cfgs, cfg{"z3-4.8.12", []string{"z3", fmt.Sprintf("-T:%d", timeoutS), file}})
	ctx, cancel := context.WithCancel(context.Background())
	defer cancel()
	ch := make(chan SolverResult, len(cfgs))
	for _, c := range cfgs {
		go func(c cfg) {
			start := time.Now()
			cctx, ccancel := context.WithTimeout(ctx, time.Duration(timeoutS+2)*time.Second)
			defer ccancel()
			cmd := exec.CommandContext(cctx, c.argv[0], c.argv[1:]...)
			var out bytes.Buffer
			cmd.Stdout = &out
			cmd.Stderr = &out
			_ = cmd.Run()
			o := out.String()
			first := strings.TrimSpace(strings.SplitN(o, "\n", 2)[0])
			r := SolverResult{Solver: c.name, Ms: time.Since(start).Milliseconds(), Output: o, Result: "unknown"}
			if first == "unsat" || first == "sat" {
				r.Result = first
				if i := strings.Index(o, "\n"); i >= 0 && first == "sat" {
					r.Model = o[i+1:]
				}
			}
			ch <- r
		}(c)
	}
	best := SolverResult{Result: "unknown"}
	for range cfgs {
		r := <-ch
		if r.Result == "unsat" || r.Result == "sat" {
			cancel()
			return r
		}
		best = r
	}
	return best
}

func runPortfolio(dir, name, query string, timeoutS int, useCvc5 bool) SolverResult {
	checkSolvers()
	file := filepath.Join(dir, name+".smt2")
	if err := os.WriteFile(file, []byte(query), 0o644); err != nil {
		return SolverResult{Result: "error", Output: err.Error()}
	}
	// cvc5 needs produce-models before set-logic and rejects some z3isms; give it its own file.
	cvcFile := filepath.Join(dir, name+".cvc5.smt2")
	if useCvc5 {
		q := "(set-option :produce-models true)\n(set-logic ALL)\n" + query
		_ = os.WriteFile(cvcFile, []byte(q), 0o644)
	}
	ctx, cancel := context.WithCancel(context.Background())
	defer cancel()
	type res struct{ r SolverResult }
	ch := make(chan SolverResult, len(solverSpecs))
	n := 0
	for _, s := range solverSpecs {
		if !solverAvail[s.name] {
			continue
		}
		f := file
		if strings.HasPrefix(s.name, "cvc5") {
			if !useCvc5 {
				continue
			}
			f = cvcFile
		}
		n++
		go func(s solverSpec, f string) {
			argv := s.argv(f, timeoutS)
			start := time.Now()
			cctx, ccancel := context.WithTimeout(ctx, time.Duration(timeoutS+2)*time.Second)
			defer ccancel()
			cmd := exec.CommandContext(cctx, argv[0], argv[1:]...)
			var out bytes.Buffer
			cmd.Stdout = &out
			cmd.Stderr = &out
			_ = cmd.Run()
			ms := time.Since(start).Milliseconds()
			o := out.String()
			first := strings.TrimSpace(strings.SplitN(o, "\n", 2)[0])
			r := SolverResult{Solver: s.name, Ms: ms, Output: o}
			switch first {
			case "unsat":
				r.Result = "unsat"
			case "sat":
				r.Result = "sat"
				if i := strings.Index(o, "\n"); i >= 0 {
					r.Model = o[i+1:]
				}
			case "unknown":
				r.Result = "unknown"
			case "timeout":
				r.Result = "timeout"
			default:
				if cctx.Err() != nil {
					r.Result = "timeout"
				} else {
					r.Result = "error"
				}
			}
			ch <- r
		}(s, f)
	}
	var best SolverResult
	best.Result = "unknown"
	var outs []string
	for i := 0; i < n; i++ {
		r := <-ch
		if r.Result == "unsat" || r.Result == "sat" {
			cancel()
			return r
		}
		outs = append(outs, r.Solver+": "+r.Result+" "+firstLines(r.Output, 3))
		if best.Solver == "" || r.Result == "timeout" {
			best = r
		}
	}
	best.Output = strings.Join(outs, "\n")
	// every solver rejected the query (parse or sort error): that is a bug of the generator, not an open question
	allErr := n > 0
	for _, o := range outs {
		if !strings.Contains(o, ": error ") {
			allErr = false
		}
	}
	if allErr {
		best.Result = "solver-error"
		return best
	}
	if best.Result == "error" {
		best.Result = "unknown"
	}
	return best
}

func firstLines(s string, n int) string {
	ls := strings.Split(s, "\n")
	if len(ls) > n {
		ls = ls[:n]
	}
	return strings.Join(ls, " | ")
}
