package main

import (
	"fmt"
	"os"
	"go/token"
	"go/types"
	"sort"
	"strings"

	"golang.org/x/tools/go/ssa"
)

// calleeName gives a stable, human-readable label for a call target (used in obligation names
// and for matching "at call" clauses).
func calleeName(cc *ssa.CallCommon) string {
	if cc.IsInvoke() {
		return recvName(cc.Value.Type()) + "." + cc.Method.Name()
	}
	if fn := cc.StaticCallee(); fn != nil {
		f := fn
		if f.Origin() != nil {
			f = f.Origin()
		}
		k := fnKey(f)
		if p := fnPkgPath(f); p != "" {
			parts := strings.Split(p, "/")
			return parts[len(parts)-1] + "." + k
		}
		return k
	}
	if b, ok := cc.Value.(*ssa.Builtin); ok {
		return b.Name()
	}
	return "dynamic:" + exprName(cc.Value)
}

func (fg *FnGen) call(instr ssa.Instruction, cc *ssa.CallCommon) *Val {
	pos := instr.Pos()
	var resT types.Type
	if v, ok := instr.(ssa.Value); ok {
		resT = v.Type()
	} else {
		resT = cc.Signature().Results()
	}
	if b, ok := cc.Value.(*ssa.Builtin); ok {
		return fg.builtin(b, cc, resT, pos)
	}
	var args []*Val
	if cc.IsInvoke() {
		args = append(args, fg.val(cc.Value))
	}
	for _, a := range cc.Args {
		args = append(args, fg.val(a))
	}
	return fg.callWith(cc, args, resT, pos, false)
}

func (fg *FnGen) callWith(cc *ssa.CallCommon, args []*Val, resT types.Type, pos token.Pos, isGo bool) *Val {
	name := calleeName(cc)
	if strings.HasPrefix(name, "dynamic:") {
		name = "dynamic:" + fg.dynCalleeName(cc.Value)
	}
	savedCC := fg.curCC
	fg.curCC = cc
	defer func() { fg.curCC = savedCC }()
	fg.atCallAsserts(name, args, pos)
	var res *Val
	if r, handled := fg.concurrencyCall(cc, args, resT, pos); handled {
		res = r
	} else {
		var con *Contract
		var names []string
		fn := cc.StaticCallee()
		sig := cc.Signature()
		if cc.IsInvoke() {
			con = fg.g.contractForMethod(cc.Value.Type(), cc.Method.Name())
			names = append(names, "recv")
		} else if fn != nil {
			con = fg.g.contractFor(fn)
			if sig.Recv() != nil {
				n := sig.Recv().Name()
				if n == "" || n == "_" {
					n = "recv"
				}
				names = append(names, n)
			}
		}
		for i := 0; i < sig.Params().Len(); i++ {
			n := sig.Params().At(i).Name()
			if n == "" || n == "_" {
				n = fmt.Sprintf("p%d", i)
			}
			names = append(names, n)
		}
		// closures: free variables are extra (trailing) parameters
		var mc *ssa.MakeClosure
		if m, ok := cc.Value.(*ssa.MakeClosure); ok {
			mc = m
		}
		if mc != nil && fn != nil {
			for i, fv := range fn.FreeVars {
				// captured by reference: the contract names the variable, the argument is its cell ("&name")
				names = append(names, "&"+fv.Name())
				args = append(args, fg.val(mc.Bindings[i]))
			}
			if con == nil {
				// an uncontracted local closure may write the private locals it captured
				for _, b := range mc.Bindings {
					bv := fg.val(b)
					if len(bv.L) == 1 {
						if pfx, ok := fg.privateRefs[bv.L[0].S]; ok {
							for _, comp := range append([]string{}, fg.compOrder...) {
								if strings.HasPrefix(comp, "H:"+pfx) {
									fg.havocComp(comp)
								}
							}
						}
					}
				}
			}
		} else if fn != nil && len(fn.FreeVars) > 0 && fn.Parent() == fg.fn.Parent() && fn == fg.fn {
			// recursive call of a closure through its own captured variable
			for _, fv := range fn.FreeVars {
				names = append(names, "&"+fv.Name())
				args = append(args, fg.val(fv))
			}
		}
		if con != nil && len(con.Params) > 0 {
			names = con.Params
		}
		if con == nil && fn == nil && !cc.IsInvoke() {
			// call of a function-typed field declared `decl funcfield T.f pure`
			if u, ok := cc.Value.(*ssa.UnOp); ok && u.Op == token.MUL {
				if _, p, _, ok := staticPrefix(u.X); ok {
					for _, d := range fg.g.cs.Decls {
						if d.Kind == "funcfield" && len(d.Args) >= 2 && strings.HasSuffix(p, "."+d.Args[0]) && d.Args[1] == "pure" {
							fg.note("assumed pure: calls of the function-typed field " + d.Args[0])
							con = &Contract{Key: d.Args[0], PkgPath: d.PkgPath, HasMod: true, Pure: true, Trusted: "funcfield declared pure", Safety: map[string]bool{}, Loops: map[int]*LoopContract{}}
						}
					}
				}
			}
		}
		if con != nil {
			res = fg.applyContract(con, name, names, args, resT, pos, isGo)
		} else {
			res = fg.uncontractedCall(cc, fn, name, args, resT, pos)
		}
	}
	fg.ctxErrAfterCall(cc, args, res)
	fg.atCallGhosts(name, args, res, pos)
	return res
}

func (fg *FnGen) atCallAsserts(name string, args []*Val, pos token.Pos) {
	if fg.c == nil {
		return
	}
	for i, ac := range fg.c.AtCalls {
		if ac.Kind != "ghostpre" || !matchCallee(ac.Callee, name) {
			continue
		}
		fg.acMatched[i] = true
		comp, ok := fg.ghosts[ac.Target]
		if !ok {
			panic(unsupported("unknown ghost variable " + ac.Target))
		}
		env := fg.env(fg.cur, fg.entry, nil)
		fg.bindCallArgs(env, args)
		env.atBlock = fg.curBlock
		v := fg.evalC(ac.Clause.Expr, env)
		fg.set(comp, v.one())
	}
	for i, ac := range fg.c.AtCalls {
		if ac.Kind != "assume" || !matchCallee(ac.Callee, name) {
			continue
		}
		fg.acMatched[i] = true
		env := fg.env(fg.cur, fg.entry, nil)
		fg.bindCallArgs(env, args)
		env.atBlock = fg.curBlock
		fg.assume(fg.evalBool(ac.Clause.Expr, env))
		fg.note("ASSUMED (environment invariant at a call, not checked) in " + fg.key + " at call " + name + ": " + ac.Clause.Src)
	}
	for i, ac := range fg.c.AtCalls {
		if ac.Kind != "assert" || !matchCallee(ac.Callee, name) {
			continue
		}
		fg.acMatched[i] = true
		env := fg.env(fg.cur, fg.entry, nil)
		fg.bindCallArgs(env, args)
		env.atBlock = fg.curBlock
		t := fg.evalBool(ac.Clause.Expr, env)
		label := ac.Clause.Label
		if label == "" {
			label = "assert"
		}
		fg.oblige("at."+sanitize(name), label, t, pos, "at every call of "+name+": "+ac.Clause.Src)
	}
}

func (fg *FnGen) atCallGhosts(name string, args []*Val, res *Val, pos token.Pos) {
	if fg.c == nil {
		return
	}
	// lemmas: proved right after the call (with `result` bound), then available as facts
	for i, ac := range fg.c.AtCalls {
		if ac.Kind != "lemma" || !matchCallee(ac.Callee, name) {
			continue
		}
		fg.acMatched[i] = true
		env := fg.env(fg.cur, fg.entry, nil)
		fg.bindCallArgs(env, args)
		env.atBlock = fg.curBlock
		if res != nil {
			env.vars["result"] = res
			env.vars["result0"] = res
			if tp, ok := res.T.(*types.Tuple); ok {
				for i := 0; i < tp.Len(); i++ {
					lo, hi := tupleRange(tp, i)
					env.vars[fmt.Sprintf("result%d", i)] = &Val{T: tp.At(i).Type(), L: res.L[lo:hi]}
				}
			}
		}
		t := fg.evalBool(ac.Clause.Expr, env)
		label := ac.Clause.Label
		if label == "" {
			label = "lemma"
		}
		fg.oblige("lemma."+sanitize(name), label, t, pos, "lemma after every call of "+name+": "+ac.Clause.Src)
	}
	for i, ac := range fg.c.AtCalls {
		if ac.Kind != "ghost" || !matchCallee(ac.Callee, name) {
			continue
		}
		fg.acMatched[i] = true
		comp, ok := fg.ghosts[ac.Target]
		env := fg.env(fg.cur, fg.entry, nil)
		fg.bindCallArgs(env, args)
		env.atBlock = fg.curBlock
		if res != nil {
			env.vars["result"] = res
			env.vars["result0"] = res
			if tp, ok := res.T.(*types.Tuple); ok {
				for i := 0; i < tp.Len(); i++ {
					lo, hi := tupleRange(tp, i)
					env.vars[fmt.Sprintf("result%d", i)] = &Val{T: tp.At(i).Type(), L: res.L[lo:hi]}
				}
			}
		}
		v := fg.evalC(ac.Clause.Expr, env)
		if ok {
			fg.set(comp, v.one())
			continue
		}
		// ghost field lvalue
		te, err := parseCExpr(ac.Target)
		if err != nil {
			panic(unsupported("bad ghost target " + ac.Target))
		}
		l := fg.evalLoc(te, env)
		if !strings.Contains(l.Prefix, ".$") {
			panic(unsupported("at-call ghost assignment to a non-ghost location " + ac.Target))
		}
		fg.ghostFieldWriteCheck(l, pos)
		fg.store(l, v, pos)
	}
}

// ghostFieldWriteCheck: a verified function may only move permissions it declares (modifies x.perm).
func (fg *FnGen) ghostFieldWriteCheck(l *Loc, pos token.Pos) {
	if fg.c == nil {
		return
	}
	comp := "H:" + l.Prefix
	for _, w := range fg.GW {
		if w.comp == comp {
			return
		}
	}
	fg.oblige("ghostframe", l.Prefix, TFalse, pos, "ghost field "+l.Prefix+" is changed but the contract does not declare it in modifies")
}

func (fg *FnGen) bindCallArgs(env *CEnv, args []*Val) {
	for i, a := range args {
		env.vars[fmt.Sprintf("arg%d", i)] = a
	}
}

func matchCallee(pat, name string) bool {
	return pat == name || strings.HasSuffix(name, "."+pat) || strings.HasSuffix(name, pat)
}

// applyContract: check requires, havoc modifies, assume ensures.
func (fg *FnGen) applyContract(con *Contract, name string, names []string, args []*Val, resT types.Type, pos token.Pos, isGo bool) *Val {
	vars := map[string]*Val{}
	cells := map[string]*Val{}
	for i, a := range args {
		if i < len(names) {
			if strings.HasPrefix(names[i], "&") {
				cells[names[i][1:]] = a // a captured variable of a closure: read through its cell in the state at hand
				continue
			}
			vars[names[i]] = a
		}
		vars[fmt.Sprintf("arg%d", i)] = a
	}
	pre := fg.cur.clone()
	// lets of the callee are evaluated in the pre-state
	mkEnv := func(st, old *State) *CEnv {
		env := fg.env(st, old, vars)
		env.noLocals = true
		env.calleePkg = con.PkgPath
		env.cells = cells
		return env
	}
	for _, l := range con.Lets {
		vars[l.Name] = fg.evalC(l.Expr, mkEnv(pre, pre))
	}
	for i, r := range con.Requires {
		t := fg.evalBool(r.Expr, mkEnv(pre, pre))
		label := r.Label
		if label == "" {
			label = fmt.Sprint(i)
		}
		fg.oblige("pre."+sanitize(name), label, t, pos, "precondition of "+name+": "+r.Src)
	}
	if con.Trusted != "" {
		fg.note("assumed contract: " + con.PkgPath + "::" + con.Key + " (" + con.Trusted + ")")
	} else if !strings.HasPrefix(con.PkgPath, "github.com/wundergraph/graphql-go-tools") {
		fg.note("assumed contract of code outside the repository (specs/*.spec, never proved): " + con.PkgPath + "::" + con.Key)
	}
	for _, cbName := range con.Callbacks {
		fg.applyCallback(vars[cbName], name, pos)
	}
	if isGo {
		// new goroutine: its effects are not sequenced; havoc what it may modify
		if !con.HasMod || con.ModAll {
			if !fg.modAll {
				fg.oblige("frame", "go."+name, TFalse, pos, "goroutine "+name+" may modify anything but the caller declares a precise frame")
			}
			fg.havocAll("go " + name)
		}
		for _, m := range con.Modifies {
			if ev, ok := countEvent(m); ok {
				if ev == "*" {
					fg.havocAllCounters(pos, excludedEvents(con))
				} else {
					fg.havocCounter("cnt:"+ev, pos)
				}
			}
		}
		for _, em := range con.Emits {
			fg.havocCounter("cnt:"+em.Event, pos)
		}
		return nil
	}
	// frame
	allocBefore := fg.allocCur()
	if !con.HasMod || con.ModAll {
		if !fg.modAll {
			fg.oblige("frame", "call."+name, TFalse, pos, "callee "+name+" may modify anything but the caller declares a precise frame")
		}
		fg.havocAll("call " + name)
	}
	for _, m := range con.Modifies {
		if _, ok := noCountEvent(m); ok {
			continue
		}
		if ev, ok := countEvent(m); ok {
			if ev == "*" {
				fg.havocAllCounters(pos, excludedEvents(con))
			} else {
				fg.havocCounter("cnt:"+ev, pos)
			}
			continue
		}
		if con.ModAll {
			// non-heap entries (lock ownership, ghost fields) still apply
			if !modMentionsNonHeap(m, con, fg) {
				continue
			}
		}
		for _, w := range fg.evalMod(m, mkEnv(pre, pre)) {
			if isGhostFieldComp(w.comp) {
				fg.ghostFieldWriteCheck(&Loc{Prefix: strings.TrimPrefix(w.comp, "H:")}, pos)
			}
			fg.havocEntry(w, pos)
		}
	}
	if con.HasMod && !con.ModAll {
		// allocation may happen
		fg.havocAllocMonotone()
	}
	for _, em := range con.Emits {
		comp := "cnt:" + em.Event
		fg.compSort(comp, SInt)
		fg.effectCheck(comp, pos)
		curv := fg.get(fg.cur, comp, SInt)
		delta := IntLit(1)
		if em.Delta != nil {
			delta = fg.evalC(em.Delta, mkEnv(pre, pre)).one()
		}
		if em.When != nil {
			w := fg.evalBool(em.When, mkEnv(pre, pre))
			fg.set(comp, Ite(w, Add(curv, delta), curv))
		} else {
			fg.set(comp, Add(curv, delta))
		}
	}
	var res *Val
	if resT != nil {
		res = fg.freshVal(resT, "ret_"+sanitize(name))
		fg.assume(fg.valFacts(res))
		fg.assume(fg.allocFacts(res))
		vars["result"] = res
		vars["result0"] = res
		if tp, ok := resT.(*types.Tuple); ok {
			for i := 0; i < tp.Len(); i++ {
				lo, hi := tupleRange(tp, i)
				vars[fmt.Sprintf("result%d", i)] = &Val{T: tp.At(i).Type(), L: res.L[lo:hi]}
			}
		}
		if con.Fresh && len(res.L) >= 1 {
			fg.assume(Ge(res.L[0], allocBefore))
		}
	}
	for _, e := range con.Ensures {
		if mentionsGhost(e.Src, con) {
			continue // ghost variables of the callee are not visible to callers
		}
		t := fg.evalBool(e.Expr, mkEnv(fg.cur, pre))
		fg.assume(t)
	}
	return res
}

func (fg *FnGen) havocAllocMonotone() {
	old := fg.allocCur()
	fg.compSort("$alloc", SInt)
	fg.havocComp("$alloc")
	fg.assume(Ge(fg.allocCur(), old))
}

// havocEntry havocs exactly one declared location (and frame-checks it against the caller's frame).
func (fg *FnGen) havocEntry(w modEntry, pos token.Pos) {
	sort := fg.compSorts[w.comp]
	if w.whole {
		fg.frameCheck(w.comp, nil, pos)
		fg.havocComp(w.comp)
		return
	}
	if w.elem {
		l := &Loc{Elem: true, Arr: w.arr}
		a := fg.get(fg.cur, w.comp, sort)
		if w.idx != nil {
			l.Idx = *w.idx
			fg.frameCheck(w.comp, l, pos)
			innerSort := Sort(strings.TrimSuffix(strings.TrimPrefix(string(sort), "(Array Int "), ")"))
			elemSort := Sort(strings.TrimSuffix(strings.TrimPrefix(string(innerSort), "(Array Int "), ")"))
			f := fg.fresh("hv", elemSort)
			fg.set(w.comp, Store(a, w.arr, Store(Select(a, w.arr), *w.idx, f)))
		} else {
			l.Idx = IntLit(0)
			fg.frameCheckWholeArr(w.comp, w.arr, pos)
			innerSort := Sort(strings.TrimSuffix(strings.TrimPrefix(string(sort), "(Array Int "), ")"))
			f := fg.fresh("hv", innerSort)
			fg.set(w.comp, Store(a, w.arr, f))
		}
		return
	}
	l := &Loc{Base: w.base}
	fg.frameCheck(w.comp, l, pos)
	a := fg.get(fg.cur, w.comp, sort)
	elemSort := Sort(strings.TrimSuffix(strings.TrimPrefix(string(sort), "(Array Int "), ")"))
	f := fg.fresh("hv", elemSort)
	fg.set(w.comp, Store(a, w.base, f))
}

func (fg *FnGen) frameCheckWholeArr(comp string, arr Term, pos token.Pos) {
	if fg.modAll || fg.c == nil {
		return
	}
	alts := []Term{Ge(arr, fg.allocEntry), Eq(arr, IntLit(0))} // a nil slice has no elements
	for _, w := range fg.W {
		if w.comp != comp {
			continue
		}
		if w.whole {
			return
		}
		if w.elem && w.idx == nil {
			alts = append(alts, Eq(arr, w.arr))
		}
	}
	fg.oblige("frame", comp, Or(alts...), pos, "write outside the declared modifies set")
}

// uncontractedCall: sound over-approximation of a call without contract.
func (fg *FnGen) uncontractedCall(cc *ssa.CallCommon, fn *ssa.Function, name string, args []*Val, resT types.Type, pos token.Pos) *Val {
	switch {
	case fn != nil && fg.g.inRepo(fnPkgPath(fn)):
		ws := fg.g.writeSetOf(fn)
		if os.Getenv("GOVC_DEBUG_WS") != "" && fg.pass == 2 {
			fmt.Fprintf(os.Stderr, "WS %s in %s: all=%v allEvents=%v comps=%v why=%v\n", name, fg.key, ws.all, ws.allEvents, sortedKeys(ws.comps), ws.why)
		}
		if ws.all {
			if !fg.modAll {
				fg.oblige("frame", "call."+name, TFalse, pos, "callee "+name+" has no contract and may modify anything")
			}
			fg.havocAll("call " + name)
		} else {
			for _, comp := range sortedKeys(ws.comps) {
				if strings.HasPrefix(comp, "cnt:") {
					continue
				}
				if fg.g.isStableComp(comp) && fg.g.stableKeptAcross(comp, []*ssa.Function{fn}) {
					continue // in the computed write set only through code that cannot run a declared writer (e.g. external one-level writes)
				}
				sort, ok := fg.compSorts[comp]
				if !ok {
					s2, ok2 := fg.g.compSortHints[comp]
					if !ok2 {
						continue
					}
					sort = s2
					fg.get(fg.cur, comp, sort)
				}
				fg.frameCheck(comp, nil, pos)
				fg.havocComp(comp)
			}
			fg.havocAllocMonotone()
		}
		if ws.allEvents {
			if len(ws.why) > 0 {
				fg.note("callee " + name + " may perform any event because of: " + strings.Join(dedupe(ws.why), "; "))
			}
			fg.havocAllCounters(pos)
		} else {
			for _, comp := range sortedKeys(ws.comps) {
				if strings.HasPrefix(comp, "cnt:") {
					fg.havocCounter(comp, pos)
				}
			}
		}
		fg.note("no contract: " + name + " (over-approximated by its computed write and effect set)")
	case fn != nil:
		// external static callee: may write through pointer/slice arguments only (assumption)
		fg.note("external call without contract: " + name + " (assumed to write only through its pointer/slice arguments)")
		callback := false
		for _, a := range args {
			if _, isFn := types.Unalias(a.T).Underlying().(*types.Signature); isFn {
				callback = true
			}
		}
		if callback {
			// a function value is passed: the callee may call back into arbitrary repository code
			fg.note("external call with a function argument: " + name + " (may call back: havocs the whole heap and may perform any event)")
			if !fg.modAll {
				fg.oblige("frame", "call."+name, TFalse, pos, "callback passed to "+name+" may modify anything")
			}
			fg.havocAll("callback " + name)
			fg.havocAllCounters(pos)
			// the function value may be one of this function's closures: the variables they assign change
			for _, comp := range append([]string{}, fg.compOrder...) {
				if strings.HasPrefix(comp, "H:local!") && fg.localAssignedByClosure(comp) {
					fg.havocComp(comp)
				}
			}
		}
		for _, a := range args {
			fg.havocReachable(a, pos)
		}
		fg.havocBoxedArgs(cc, pos)
		fg.havocAllocMonotone()
	case cc.IsInvoke() && isErrorInterface(cc.Value.Type()):
		// error.Error(): assumed to be a read-only accessor
		fg.note("error.Error() assumed pure")
	case cc.IsInvoke() && fg.g.externalInterface(cc.Value.Type()):
		// method of an interface type declared outside the repository (arena.Arena, io.Writer, context.Context...):
		// like an external function it writes only through its arguments and performs none of the repository's events
		fg.note("external interface method without contract: " + name + " (assumed to write only through its pointer/slice arguments and to perform no modelled event)")
		for _, a := range args[1:] {
			fg.havocReachable(a, pos)
		}
		fg.havocBoxedArgs(cc, pos)
		fg.havocAllocMonotone()
	case !cc.IsInvoke() && fg.g.externalFuncType(cc.Value.Type()):
		// a value of a named function type declared outside the repository (context.CancelFunc, ...): external code
		fg.note("call of an external function-typed value without contract: " + name + " (assumed to write only through its pointer/slice arguments and to perform no modelled event)")
		for _, a := range args {
			fg.havocReachable(a, pos)
		}
		fg.havocBoxedArgs(cc, pos)
		fg.havocAllocMonotone()
	default:
		if !fg.modAll {
			fg.oblige("frame", "call."+name, TFalse, pos, "dynamic call "+name+" without contract may modify anything")
		}
		fg.havocAll("dynamic call " + name)
		fg.havocAllCounters(pos)
		fg.note("dynamic call without contract: " + name + " (havocs the whole heap and may perform any event)")
	}
	if resT == nil {
		return nil
	}
	if tp, ok := resT.(*types.Tuple); ok && tp.Len() == 0 {
		return nil
	}
	res := fg.freshVal(resT, "ret_"+sanitize(name))
	fg.assume(fg.valFacts(res))
	fg.assume(fg.allocFacts(res))
	return res
}

// havocBoxedArgs: a pointer or slice passed inside an interface value (json.Unmarshal(data, &v)) is written through as well.
func (fg *FnGen) havocBoxedArgs(cc *ssa.CallCommon, pos token.Pos) {
	for _, a := range cc.Args {
		if mi, ok := a.(*ssa.MakeInterface); ok {
			switch types.Unalias(mi.X.Type()).Underlying().(type) {
			case *types.Pointer, *types.Slice:
				fg.havocReachable(fg.val(mi.X), pos)
			}
		}
	}
}

// havocReachable havocs memory directly reachable from an argument (one level).
func (fg *FnGen) havocReachable(a *Val, pos token.Pos) {
	if a.Loc != nil {
		l := a.Loc
		for _, leaf := range layout(l.T) {
			comp := fg.compName(l, leaf)
			if l.Elem {
				fg.get(fg.cur, comp, ArrSort(ArrSort(leaf.Sort)))
				idx := l.Idx
				fg.havocEntry(modEntry{comp: comp, elem: true, arr: l.Arr, idx: &idx}, pos)
			} else {
				fg.get(fg.cur, comp, ArrSort(leaf.Sort))
				fg.havocEntry(modEntry{comp: comp, base: l.Base}, pos)
			}
		}
		return
	}
	switch t := types.Unalias(a.T).Underlying().(type) {
	case *types.Pointer:
		T := t.Elem()
		if _, isArr := types.Unalias(T).Underlying().(*types.Array); isArr {
			return
		}
		l := &Loc{Prefix: typeKey(T), Base: a.one(), T: T}
		for _, leaf := range layout(T) {
			comp := fg.compName(l, leaf)
			fg.get(fg.cur, comp, ArrSort(leaf.Sort))
			fg.havocEntry(modEntry{comp: comp, base: l.Base}, pos)
		}
	case *types.Slice:
		for _, leaf := range layout(t.Elem()) {
			comp := "E:" + typeKey(t.Elem()) + leaf.Path
			fg.get(fg.cur, comp, ArrSort(ArrSort(leaf.Sort)))
			fg.havocEntry(modEntry{comp: comp, elem: true, arr: a.L[0]}, pos)
		}
	}
}

func (fg *FnGen) goCall(x *ssa.Go) {
	cc := &x.Call
	var args []*Val
	if cc.IsInvoke() {
		args = append(args, fg.val(cc.Value))
	}
	for _, a := range cc.Args {
		args = append(args, fg.val(a))
	}
	if _, ok := cc.Value.(*ssa.Builtin); ok {
		return
	}
	fn := cc.StaticCallee()
	var con *Contract
	if fn != nil {
		con = fg.g.contractFor(fn)
	}
	if con != nil {
		fg.callWith(cc, args, nil, x.Pos(), true)
		return
	}
	// a goroutine without contract runs concurrently: everything it may write is havoc from now on
	fg.note("go statement without contract: " + calleeName(cc) + " (havocs the whole heap and may perform any event)")
	if !fg.modAll {
		fg.oblige("frame", "go."+calleeName(cc), TFalse, x.Pos(), "goroutine without contract may modify anything")
	}
	savedCC := fg.curCC
	fg.curCC = cc
	fg.havocAll("go")
	fg.havocAllCounters(x.Pos())
	fg.curCC = savedCC
}

func (fg *FnGen) runDefers() {
	ds := fg.cur.defers
	fg.cur.defers = nil
	for i := len(ds) - 1; i >= 0; i-- {
		d := ds[i]
		if fg.inLoop[d.instr.Block().Index] != nil {
			panic(unsupported("defer inside a loop"))
		}
		// conditional execution: run under (reach && pushed), then merge the state with ite(pushed, after, before)
		before := fg.cur.clone()
		savedReach := fg.curReach
		fg.curReach = And(savedReach, d.guard)
		fg.runOneDefer(d)
		fg.curReach = savedReach
		if d.guard.S != "true" {
			for comp, after := range fg.cur.ver {
				bv, ok := before.ver[comp]
				if !ok {
					bv = fg.get(before, comp, fg.compSorts[comp])
				}
				if bv.S != after.S {
					fg.nfresh++
					c := fg.declare(fmt.Sprintf("%s@d%d", comp, fg.nfresh), after.Sort)
					fg.assertRaw(Eq(c, Ite(d.guard, after, bv)))
					fg.cur.ver[comp] = c
				}
			}
		}
	}
}

func (fg *FnGen) runOneDefer(d *deferred) {
	{
		cc := &d.instr.Call
		if b, ok := cc.Value.(*ssa.Builtin); ok {
			_ = b
			fg.builtinArgs(b, d.args, nil, d.instr.Pos())
			return
		}
		args := d.args
		if !cc.IsInvoke() && cc.StaticCallee() == nil {
			args = args[1:]
		}
		fg.callWith(cc, args, cc.Signature().Results(), d.instr.Pos(), false)
	}
}

// checkPost: postconditions at a return.
func (fg *FnGen) checkPost(results []*Val, pos token.Pos) {
	if fg.c == nil {
		return
	}
	vars := map[string]*Val{}
	for i, r := range results {
		vars[fmt.Sprintf("result%d", i)] = r
		if i == 0 {
			vars["result"] = r
		}
	}
	// named results
	if sig := fg.fn.Signature; sig.Results() != nil {
		for i := 0; i < sig.Results().Len() && i < len(results); i++ {
			if n := sig.Results().At(i).Name(); n != "" && n != "_" {
				if _, clash := fg.params[n]; !clash {
					vars[n] = results[i]
				}
			}
		}
	}
	for _, e := range fg.c.Ensures {
		if e.Def {
			if !fg.c.Pure {
				panic(unsupported("defines clause on a function that is not declared pure"))
			}
			fg.note("DEFINITIONAL AXIOM (result of the pure function " + fg.key + " names uninterpreted spec functions; assumed at call sites): " + e.Src)
			denv := fg.env(fg.cur, fg.entry, vars)
			denv.noLocals = true
			fg.assume(fg.evalBool(e.Expr, denv))
		}
	}
	for i, e := range fg.c.Ensures {
		if e.Def {
			continue
		}
		env := fg.env(fg.cur, fg.entry, vars)
		env.noLocals = true
		t := fg.evalBool(e.Expr, env)
		label := e.Label
		if label == "" {
			label = fmt.Sprint(i)
		}
		fg.oblige("post", label, t, pos, "postcondition: "+e.Src)
	}
	// lock discipline: locks acquired by this function are released at return unless declared
	fg.checkLocksAtReturn(pos)
	if fg.pass == 2 {
		// vacuity: this return should be reachable (cover obligation, must be SAT)
		fg.obls = append(fg.obls, &Obligation{Name: fmt.Sprintf("%s.%s#cover.return.%d", fg.g.shortPkg(fnPkgPath(fg.fn)), fg.key, fg.curBlock.Index), Kind: "cover",
			Fn: fg.key, Desc: "return is reachable (vacuity guard)", Pos: fg.posStr(pos), Guard: fg.curReach, Goal: TFalse,
			NAsserts: len(fg.asserts), NDecls: len(fg.decls), fg: fg, Vacuity: true})
	}
}

// ---------------------------------------------------------------------------------------
// transitive write sets for functions without contract

func (g *Gen) writeSetOf(fn *ssa.Function) *writeSet {
	if ws, ok := g.writeSets[fn]; ok {
		return ws // may be in progress (recursion): treated as empty, fixpoint below
	}
	ws := &writeSet{comps: map[string]bool{}}
	g.writeSets[fn] = ws
	if con := g.contractFor(fn); con != nil {
		// a contracted callee inside an uncontracted one: heap frame over-approximated by "all" unless simple
		simpleMods(con, ws, g)
		ws.done = true
		return ws
	}
	if len(fn.Blocks) == 0 {
		if g.inRepo(fnPkgPath(fn)) {
			ws.all = true
		}
		ws.done = true
		return ws
	}
	for _, b := range fn.Blocks {
		for _, ins := range b.Instrs {
			switch x := ins.(type) {
			case *ssa.Store:
				kind, prefix, T, ok := staticPrefix(x.Addr)
				if !ok {
					ws.all = true
					continue
				}
				if isLocalAlloc(x.Addr) || rootIsAlloc(x.Addr) {
					continue // memory allocated by the callee itself is not caller-visible state
				}
				for _, leaf := range layout(T) {
					comp := kind + prefix + leaf.Path
					ws.comps[comp] = true
					s := ArrSort(leaf.Sort)
					if kind == "E:" {
						s = ArrSort(s)
					}
					g.compSortHints[comp] = s
				}
			case *ssa.MapUpdate:
				if mt, ok := types.Unalias(x.Map.Type()).Underlying().(*types.Map); ok {
					g.addMapComps(ws, mt)
				} else {
					ws.all = true
				}
			case *ssa.Send, *ssa.Select:
				// channel state is not part of the modelled heap
			case *ssa.Go:
				ws.all = true
				ws.allEvents = true
				ws.why = append(ws.why, fnKey(fn)+": go statement")
			case ssa.CallInstruction:
				cc := x.Common()
				if b, ok := cc.Value.(*ssa.Builtin); ok {
					switch b.Name() {
					case "append", "copy", "clear":
						switch t := types.Unalias(cc.Args[0].Type()).Underlying().(type) {
						case *types.Slice:
							for _, leaf := range layout(t.Elem()) {
								comp := "E:" + typeKey(t.Elem()) + leaf.Path
								ws.comps[comp] = true
								g.compSortHints[comp] = ArrSort(ArrSort(leaf.Sort))
							}
						case *types.Map:
							g.addMapComps(ws, t)
						default:
							ws.all = true
						}
					case "delete":
						if mt, ok := types.Unalias(cc.Args[0].Type()).Underlying().(*types.Map); ok {
							g.addMapComps(ws, mt)
						} else {
							ws.all = true
						}
					}
					continue
				}
				callee := cc.StaticCallee()
				if callee == nil {
					// interface method with a contract?
					if cc.IsInvoke() {
						if con := g.contractForMethod(cc.Value.Type(), cc.Method.Name()); con != nil {
							simpleMods(con, ws, g)
							continue
						}
					}
					if cc.IsInvoke() && isErrorInterface(cc.Value.Type()) {
						continue
					}
					if cc.IsInvoke() && g.externalInterface(cc.Value.Type()) {
						for _, a := range cc.Args {
							g.addArgWrites(ws, a)
						}
						continue
					}
					if !cc.IsInvoke() && g.externalFuncType(cc.Value.Type()) {
						for _, a := range cc.Args {
							g.addArgWrites(ws, a)
						}
						continue
					}
					ws.all = true
					ws.allEvents = true
					ws.why = append(ws.why, fnKey(fn)+": dynamic call "+calleeName(cc))
					continue
				}
				if !g.inRepo(fnPkgPath(callee)) {
					if con := g.contractFor(callee); con != nil {
						sub := &writeSet{comps: map[string]bool{}}
						simpleMods(con, sub, g)
						for c := range sub.comps {
							ws.comps[c] = true
						}
						if !sub.all {
							continue // external callee fully described by its assumed contract
						}
					}
					// external code writes only through its arguments, one level (assumption); a func-typed
					// argument may call back into the repository: everything
					for _, a := range cc.Args {
						g.addArgWrites(ws, a)
					}
					continue
				}
				sub := g.writeSetOf(callee)
				if sub.all {
					ws.all = true
				}
				if sub.allEvents {
					ws.allEvents = true
					ws.why = append(ws.why, sub.why...)
				}
				for c := range sub.comps {
					ws.comps[c] = true
				}
			}
		}
	}
	ws.done = true
	return ws
}

func isLocalAlloc(v ssa.Value) bool {
	switch x := v.(type) {
	case *ssa.Alloc:
		return !x.Heap
	case *ssa.Slice:
		return isLocalAlloc(x.X)
	case *ssa.FieldAddr:
		return isLocalAlloc(x.X)
	case *ssa.IndexAddr:
		return isLocalAlloc(x.X)
	}
	return false
}

// staticPrefix computes the heap component prefix of an address from types alone.
func staticPrefix(addr ssa.Value) (kind, prefix string, T types.Type, ok bool) {
	switch x := addr.(type) {
	case *ssa.FieldAddr:
		k, p, bt, ok := staticPrefix(x.X)
		if !ok {
			return "", "", nil, false
		}
		st, isS := types.Unalias(bt).Underlying().(*types.Struct)
		if !isS {
			return "", "", nil, false
		}
		f := st.Field(x.Field)
		return k, p + "." + f.Name(), f.Type(), true
	case *ssa.IndexAddr:
		switch t := types.Unalias(x.X.Type()).Underlying().(type) {
		case *types.Slice:
			return "E:", typeKey(t.Elem()), t.Elem(), true
		case *types.Pointer:
			if at, ok := types.Unalias(t.Elem()).Underlying().(*types.Array); ok {
				return "E:", typeKey(at.Elem()), at.Elem(), true
			}
		}
		return "", "", nil, false
	}
	T = derefType(addr.Type())
	if T == nil {
		return "", "", nil, false
	}
	return "H:", typeKey(T), T, true
}

func mentionsGhost(src string, con *Contract) bool {
	for _, gv := range con.Ghosts {
		if strings.Contains(src, gv.Name) {
			return true
		}
	}
	return false
}

func (g *Gen) addMapComps(ws *writeSet, mt *types.Map) {
	mc := mapComp(mt)
	ws.comps[mc+"!has"] = true
	g.compSortHints[mc+"!has"] = ArrSort(ArrSort(SBool))
	ws.comps[mc+"!len"] = true
	g.compSortHints[mc+"!len"] = ArrSort(SInt)
	for _, leaf := range layout(mt.Elem()) {
		ws.comps[mc+"!val"+leaf.Path] = true
		g.compSortHints[mc+"!val"+leaf.Path] = ArrSort(ArrSort(leaf.Sort))
	}
}

// stable fields -------------------------------------------------------------------------

// isStableComp: the component belongs to a field declared `decl stable T.f by <writers>`.
func (g *Gen) isStableComp(comp string) bool {
	for prefix := range g.stable {
		if comp == prefix || strings.HasPrefix(comp, prefix+".") || (strings.HasPrefix(prefix, "M:") && strings.HasPrefix(comp, prefix+"!")) {
			return true
		}
	}
	return false
}

// checkStableDecls scans every function of the declaring package: only the listed writers (and
// initialisation of freshly allocated objects) may store to a stable field.
func (g *Gen) checkStableDecls() []*Obligation {
	var out []*Obligation
	for _, d := range g.cs.Decls {
		if (d.Kind == "stableelems" || d.Kind == "frozenelems") && len(d.Args) >= 1 {
			if o := g.checkStableElems(d); o != nil {
				out = append(out, o)
			}
			continue
		}
		if d.Kind == "stablemaps" && len(d.Args) >= 1 {
			if o := g.checkStableMaps(d); o != nil {
				out = append(out, o)
			}
			continue
		}
		if (d.Kind == "readers" || d.Kind == "noreads") && len(d.Args) >= 1 {
			if o := g.checkReaders(d); o != nil {
				out = append(out, o)
			}
			continue
		}
		if d.Kind == "chaninv" && len(d.Args) >= 1 {
			if o := g.checkChanInvUses(d); o != nil {
				out = append(out, o)
			}
			continue
		}
		if (d.Kind != "stable" && d.Kind != "frozen" && d.Kind != "stablecells") || len(d.Args) < 1 {
			continue
		}
		sp := g.ssaPkgs[d.PkgPath]
		if sp == nil {
			continue
		}
		field := d.Args[0] // T.f   (frozen: pkg.T.f of another package; this package must not store to it)
		prefix := "H:" + sp.Pkg.Name() + "." + field
		if d.Kind == "frozen" {
			prefix = "H:" + field
		}
		if d.Kind == "stablecells" {
			// `decl stablecells int64 by writers`: memory cells of a basic type reached through a *T pointer
			// (not struct fields, which have their own components) are stored only by the listed writers
			T := g.resolveTypeString(field, d.PkgPath)
			if T == nil {
				out = append(out, &Obligation{Name: g.shortPkg(d.PkgPath) + "." + sanitize(field) + "#stable.cells", Kind: "stable", Fn: field, Desc: "unknown type", NAsserts: -1,
					Res: SolverResult{Result: "unknown", Output: "cannot resolve type " + field}})
				continue
			}
			prefix = "H:" + typeKey(T)
		}
		writers := map[string]bool{}
		for _, w := range d.Args[1:] {
			w = strings.Trim(w, ",")
			if w != "by" && w != "" {
				writers[w] = true
			}
		}
		g.stable[prefix] = writers
		var offenders []string
		var visit func(fn *ssa.Function)
		visit = func(fn *ssa.Function) {
			key := fnKey(fn)
			for _, b := range fn.Blocks {
				for _, ins := range b.Instrs {
					switch x := ins.(type) {
					case *ssa.Store:
						kind, p, _, ok := staticPrefix(x.Addr)
						if !ok || kind != "H:" {
							continue
						}
						full := kind + p
						if (full == prefix || strings.HasPrefix(full, prefix+".")) && !writers[key] && !rootIsAlloc(x.Addr) {
							offenders = append(offenders, key+" ("+g.fset.Position(x.Pos()).String()+")")
						}
					case *ssa.FieldAddr:
						// the address of a stable field must not escape (only loads and stores)
						kind, p, _, ok := staticPrefix(x)
						if !ok || kind+p != prefix {
							continue
						}
						for _, ref := range *x.Referrers() {
							switch r := ref.(type) {
							case *ssa.UnOp, *ssa.Store, *ssa.DebugRef, *ssa.FieldAddr, *ssa.IndexAddr:
								_ = r
							default:
								if !writers[key] {
									offenders = append(offenders, key+" takes the address of the field ("+g.fset.Position(x.Pos()).String()+")")
								}
							}
						}
					}
				}
			}
			for _, a := range fn.AnonFuncs {
				visit(a)
			}
		}
		for _, m := range sp.Members {
			switch x := m.(type) {
			case *ssa.Function:
				visit(x)
			case *ssa.Type:
				for _, T := range []types.Type{x.Type(), types.NewPointer(x.Type())} {
					ms := g.prog.MethodSets.MethodSet(T)
					for i := 0; i < ms.Len(); i++ {
						if fn := g.prog.MethodValue(ms.At(i)); fn != nil && fn.Synthetic == "" && fn.Pkg == sp {
							visit(fn)
						}
					}
				}
			}
		}
		o := &Obligation{Name: g.shortPkg(d.PkgPath) + "." + field + "#stable.writers", Kind: "stable", Fn: field,
			Desc: "field " + field + " is stored only by its declared writers: " + strings.Join(d.Args[1:], " "), NAsserts: -1}
		if d.Kind == "stablecells" {
			o.Name = g.shortPkg(d.PkgPath) + "." + sanitize(field) + "#stable.cells"
			o.Desc = "cells of type " + field + " reached through pointers are stored only by: " + strings.Join(d.Args[1:], " ")
		}
		if len(offenders) == 0 {
			o.Res = SolverResult{Result: "unsat", Solver: "ssa-scan"}
		} else {
			sort.Strings(offenders)
			o.Res = SolverResult{Result: "unknown", Output: "also written by: " + strings.Join(dedupe(offenders), "; ")}
		}
		out = append(out, o)
	}
	return out
}

// checkReaders: `decl readers T.f by F1, F2` - the field is read (loaded) only by the listed functions of the declaring
// package (everybody else has to go through them, e.g. through an accessor that applies a renaming);
// `decl noreads pkg.T.f` - this package does not read that field of another package's type at all. SSA scan of the
// declaring package; stores are not reads.
func (g *Gen) checkReaders(d *Decl) *Obligation {
	sp := g.ssaPkgs[d.PkgPath]
	if sp == nil {
		return nil
	}
	field := d.Args[0]
	prefix := "H:" + sp.Pkg.Name() + "." + field
	if d.Kind == "noreads" {
		prefix = "H:" + field
	}
	readers := map[string]bool{}
	for _, w := range d.Args[1:] {
		w = strings.Trim(w, ",")
		if w != "by" && w != "" {
			readers[w] = true
		}
	}
	var offenders []string
	var visit func(fn *ssa.Function)
	visit = func(fn *ssa.Function) {
		key := fnKey(fn)
		for _, b := range fn.Blocks {
			for _, ins := range b.Instrs {
				fa, ok := ins.(*ssa.FieldAddr)
				if !ok {
					continue
				}
				kind, p, _, ok := staticPrefix(fa)
				if !ok || kind+p != prefix || fa.Referrers() == nil {
					continue
				}
				for _, ref := range *fa.Referrers() {
					switch r := ref.(type) {
					case *ssa.Store:
						if r.Addr == ssa.Value(fa) {
							continue // a store to the field is not a read
						}
					case *ssa.DebugRef:
						continue
					}
					if !readers[key] {
						offenders = append(offenders, key+" ("+g.fset.Position(fa.Pos()).String()+")")
					}
				}
			}
		}
		for _, a := range fn.AnonFuncs {
			visit(a)
		}
	}
	for _, m := range sp.Members {
		switch x := m.(type) {
		case *ssa.Function:
			visit(x)
		case *ssa.Type:
			for _, T := range []types.Type{x.Type(), types.NewPointer(x.Type())} {
				ms := g.prog.MethodSets.MethodSet(T)
				for i := 0; i < ms.Len(); i++ {
					if fn := g.prog.MethodValue(ms.At(i)); fn != nil && fn.Synthetic == "" && fn.Pkg == sp {
						visit(fn)
					}
				}
			}
		}
	}
	o := &Obligation{Name: g.shortPkg(d.PkgPath) + "." + field + "#readers", Kind: "stable", Fn: field,
		Desc: "field " + field + " is read only by: " + strings.Join(d.Args[1:], " "), NAsserts: -1}
	if d.Kind == "noreads" {
		o.Desc = "this package does not read the field " + field + " (it goes through the accessor of the declaring package)"
	}
	if len(offenders) == 0 {
		o.Res = SolverResult{Result: "unsat", Solver: "ssa-scan"}
	} else {
		sort.Strings(offenders)
		o.Res = SolverResult{Result: "unknown", Output: "also read by: " + strings.Join(dedupe(offenders), "; ")}
	}
	return o
}

// checkChanInvUses: the channel of a `decl chaninv T.f` is a pure completion signal. Every use of the channel value
// loaded from the field in the declaring package is a receive, a receive case of a select, or close(); nothing is sent
// on it and it is not handed to other code (so only its close wakes a receiver).
func (g *Gen) checkChanInvUses(d *Decl) *Obligation {
	sp := g.ssaPkgs[d.PkgPath]
	if sp == nil {
		return nil
	}
	field := d.Args[0]
	prefix := "H:" + sp.Pkg.Name() + "." + field
	var offenders []string
	var visit func(fn *ssa.Function)
	visit = func(fn *ssa.Function) {
		key := fnKey(fn)
		for _, b := range fn.Blocks {
			for _, ins := range b.Instrs {
				u, ok := ins.(*ssa.UnOp)
				if !ok || u.Op != token.MUL {
					continue
				}
				fa, ok := u.X.(*ssa.FieldAddr)
				if !ok {
					continue
				}
				kind, p, _, ok := staticPrefix(fa)
				if !ok || kind+p != prefix {
					continue
				}
				for _, ref := range *u.Referrers() {
					okUse := false
					switch r := ref.(type) {
					case *ssa.DebugRef:
						okUse = true
					case *ssa.UnOp:
						okUse = r.Op == token.ARROW
					case *ssa.Select:
						okUse = true
						for _, st := range r.States {
							if st.Chan == ssa.Value(u) && st.Dir != types.RecvOnly {
								okUse = false
							}
							if st.Send == ssa.Value(u) {
								okUse = false
							}
						}
					case *ssa.Call:
						if bi, isB := r.Call.Value.(*ssa.Builtin); isB && bi.Name() == "close" {
							okUse = true
						}
					case *ssa.BinOp:
						okUse = true // comparison with nil
					}
					if !okUse {
						offenders = append(offenders, key+" uses the channel other than by receive/close ("+g.fset.Position(ref.Pos()).String()+")")
					}
				}
			}
		}
		for _, a := range fn.AnonFuncs {
			visit(a)
		}
	}
	for _, m := range sp.Members {
		switch x := m.(type) {
		case *ssa.Function:
			visit(x)
		case *ssa.Type:
			for _, T := range []types.Type{x.Type(), types.NewPointer(x.Type())} {
				ms := g.prog.MethodSets.MethodSet(T)
				for i := 0; i < ms.Len(); i++ {
					if fn := g.prog.MethodValue(ms.At(i)); fn != nil && fn.Synthetic == "" && fn.Pkg == sp {
						visit(fn)
					}
				}
			}
		}
	}
	o := &Obligation{Name: g.shortPkg(d.PkgPath) + "." + field + "#chaninv.signal.only", Kind: "stable", Fn: field,
		Desc: "channel " + field + " is only received from and closed (never sent on, never handed to other code) in its package", NAsserts: -1}
	if len(offenders) == 0 {
		o.Res = SolverResult{Result: "unsat", Solver: "ssa-scan"}
	} else {
		sort.Strings(offenders)
		o.Res = SolverResult{Result: "unknown", Output: strings.Join(dedupe(offenders), "; ")}
	}
	return o
}

func dedupe(xs []string) []string {
	var out []string
	seen := map[string]bool{}
	for _, x := range xs {
		if !seen[x] {
			seen[x] = true
			out = append(out, x)
		}
	}
	return out
}

func rootIsAlloc(addr ssa.Value) bool {
	switch x := addr.(type) {
	case *ssa.Alloc, *ssa.MakeSlice:
		return true
	case *ssa.Slice:
		return rootIsAlloc(x.X)
	case *ssa.FieldAddr:
		return rootIsAlloc(x.X)
	case *ssa.IndexAddr:
		return rootIsAlloc(x.X)
	}
	return false
}

func (g *Gen) isStableWriter(comp string, fn *ssa.Function) bool {
	if fn == nil {
		return false
	}
	for prefix, writers := range g.stable {
		if comp == prefix || strings.HasPrefix(comp, prefix+".") {
			if writers[fnKey(fn)] {
				return true
			}
		}
	}
	return false
}

// addArgWrites: what an external callee may write through one argument (one level).
func (g *Gen) addArgWrites(ws *writeSet, a ssa.Value) {
	if mi, ok := a.(*ssa.MakeInterface); ok {
		// json.Unmarshal(data, &v): the pointer travels inside an interface value
		g.addArgWrites(ws, mi.X)
		return
	}
	if isLocalAlloc(a) {
		return
	}
	switch t := types.Unalias(a.Type()).Underlying().(type) {
	case *types.Pointer:
		if _, isArr := types.Unalias(t.Elem()).Underlying().(*types.Array); isArr {
			return
		}
		for _, leaf := range layout(t.Elem()) {
			comp := "H:" + typeKey(t.Elem()) + leaf.Path
			ws.comps[comp] = true
			g.compSortHints[comp] = ArrSort(leaf.Sort)
		}
	case *types.Slice:
		for _, leaf := range layout(t.Elem()) {
			comp := "E:" + typeKey(t.Elem()) + leaf.Path
			ws.comps[comp] = true
			g.compSortHints[comp] = ArrSort(ArrSort(leaf.Sort))
		}
	case *types.Map:
		g.addMapComps(ws, t)
	case *types.Signature:
		ws.all = true
		ws.allEvents = true
	}
}

// externalInterface: the static type of the receiver is a named interface declared outside the repository.
func (g *Gen) externalInterface(T types.Type) bool {
	n, ok := types.Unalias(T).(*types.Named)
	if !ok || n.Obj().Pkg() == nil {
		return false // error, any, anonymous interfaces: no
	}
	return !g.inRepo(n.Obj().Pkg().Path())
}

func isErrorInterface(T types.Type) bool {
	n, ok := types.Unalias(T).(*types.Named)
	return ok && n.Obj().Pkg() == nil && n.Obj().Name() == "error"
}

// simpleMods converts contract modifies entries that do not depend on arguments (global(x), count(ev))
// to component names; ok=false if some entry needs evaluation.
func simpleMods(con *Contract, ws *writeSet, g *Gen) {
	for _, m := range con.Modifies {
		if _, ok := noCountEvent(m); ok {
			continue // over-approximated: a contracted callee inside an uncontracted one may perform any event
		}
		if ev, ok := countEvent(m); ok {
			if ev == "*" {
				ws.allEvents = true
			} else {
				ws.comps["cnt:"+ev] = true
			}
			continue
		}
		if c, ok := m.(*CCall); ok {
			if id, ok := c.Fn.(*CIdent); ok && id.Name == "global" && len(c.Args) == 1 {
				comp := "gg:" + c.Args[0].cstr()
				ws.comps[comp] = true
				g.compSortHints[comp] = SInt
				continue
			}
		}
		ws.all = true
	}
	if !con.HasMod || con.ModAll {
		ws.all = true
	}
	for _, em := range con.Emits {
		ws.comps["cnt:"+em.Event] = true
	}
}

// checkStableElems: `decl stableelems <elemtype>`: elements of slices of this type are written only
// into arrays allocated in the same function (construction), anywhere in the declaring package.
func (g *Gen) checkStableElems(d *Decl) *Obligation {
	sp := g.ssaPkgs[d.PkgPath]
	if sp == nil {
		return nil
	}
	T := g.resolveTypeString(d.Args[0], d.PkgPath)
	if T == nil {
		return &Obligation{Name: g.shortPkg(d.PkgPath) + "." + d.Args[0] + "#stable.elems", Kind: "stable", Fn: d.Args[0], Desc: "unknown type", NAsserts: -1,
			Res: SolverResult{Result: "unknown", Output: "cannot resolve type " + d.Args[0]}}
	}
	prefix := "E:" + typeKey(T)
	g.stable[prefix] = map[string]bool{}
	var offenders []string
	var visit func(fn *ssa.Function)
	visit = func(fn *ssa.Function) {
		for _, b := range fn.Blocks {
			for _, ins := range b.Instrs {
				switch x := ins.(type) {
				case *ssa.Store:
					kind, p, _, ok := staticPrefix(x.Addr)
					if ok && kind+p == prefix && !rootIsAlloc(x.Addr) {
						offenders = append(offenders, fnKey(fn)+" ("+g.fset.Position(x.Pos()).String()+")")
					}
				case *ssa.Call:
					if bi, ok := x.Call.Value.(*ssa.Builtin); ok && (bi.Name() == "append" || bi.Name() == "copy" || bi.Name() == "clear") {
						if st, ok := types.Unalias(x.Call.Args[0].Type()).Underlying().(*types.Slice); ok && "E:"+typeKey(st.Elem()) == prefix {
							// append/copy into a slice: allowed only when the destination is freshly made here or nil
							if !rootIsAlloc(x.Call.Args[0]) && !isNilConst(x.Call.Args[0]) && !isAppendChainOfFresh(x.Call.Args[0]) {
								offenders = append(offenders, fnKey(fn)+" "+bi.Name()+" ("+g.fset.Position(x.Pos()).String()+")")
							}
						}
					}
				}
			}
		}
		for _, a := range fn.AnonFuncs {
			visit(a)
		}
	}
	for _, m := range sp.Members {
		switch x := m.(type) {
		case *ssa.Function:
			visit(x)
		case *ssa.Type:
			for _, TT := range []types.Type{x.Type(), types.NewPointer(x.Type())} {
				ms := g.prog.MethodSets.MethodSet(TT)
				for i := 0; i < ms.Len(); i++ {
					if fn := g.prog.MethodValue(ms.At(i)); fn != nil && fn.Synthetic == "" && fn.Pkg == sp {
						visit(fn)
					}
				}
			}
		}
	}
	o := &Obligation{Name: g.shortPkg(d.PkgPath) + "." + sanitize(d.Args[0]) + "#stable.elems", Kind: "stable", Fn: d.Args[0],
		Desc: "elements of []" + d.Args[0] + " are written only during construction of a fresh slice", NAsserts: -1}
	if len(offenders) == 0 {
		o.Res = SolverResult{Result: "unsat", Solver: "ssa-scan"}
	} else {
		sort.Strings(offenders)
		o.Res = SolverResult{Result: "unknown", Output: "also written by: " + strings.Join(dedupe(offenders), "; ")}
	}
	return o
}

func isNilConst(v ssa.Value) bool {
	c, ok := v.(*ssa.Const)
	return ok && c.Value == nil
}

// isAppendChainOfFresh: x = append(append(make/nil, ...), ...) possibly through phis of such values.
func isAppendChainOfFresh(v ssa.Value) bool {
	seen := map[ssa.Value]bool{}
	var rec func(v ssa.Value) bool
	rec = func(v ssa.Value) bool {
		if seen[v] {
			return true
		}
		seen[v] = true
		switch x := v.(type) {
		case *ssa.MakeSlice:
			return true
		case *ssa.Const:
			return x.Value == nil
		case *ssa.Slice:
			return rec(x.X)
		case *ssa.Alloc:
			return true
		case *ssa.Call:
			if bi, ok := x.Call.Value.(*ssa.Builtin); ok && bi.Name() == "append" {
				return rec(x.Call.Args[0])
			}
			return false
		case *ssa.Phi:
			for _, e := range x.Edges {
				if !rec(e) {
					return false
				}
			}
			return true
		}
		return false
	}
	return rec(v)
}

// applyCallback: the callee may invoke the function value any number of times. If it is a closure
// created in this function whose body only stores to its captured variables (directly, or to the
// elements of a captured slice) and calls nothing with effects, exactly those locations are havoced;
// otherwise everything is.
func (fg *FnGen) applyCallback(cb *Val, name string, pos token.Pos) {
	var mc *ssa.MakeClosure
	if cb != nil && len(cb.L) == 1 {
		for v, m := range fg.closures {
			if vv := fg.vals[v]; vv != nil && len(vv.L) == 1 && vv.L[0].S == cb.L[0].S {
				mc = m
			}
		}
	}
	if mc == nil && cb != nil && len(cb.L) == 1 {
		// a function literal without captured variables (or a named function) used as callback
		if f := fg.funcConsts[cb.L[0].S]; f != nil && len(f.FreeVars) == 0 && len(f.Blocks) > 0 && fg.g.inRepo(fnPkgPath(f)) && closureIsSimple(f, fg.g) {
			fg.note("callback passed to " + name + ": function without captured variables and without stores or calls, no effect")
			return
		}
	}
	if mc == nil || !closureIsSimple(mc.Fn.(*ssa.Function), fg.g) {
		fg.note("callback passed to " + name + " is not a simple local closure: havocs the whole heap and may perform any event")
		if !fg.modAll {
			fg.oblige("frame", "callback."+name, TFalse, pos, "callback may modify anything")
		}
		fg.havocAll("callback " + name)
		fg.havocAllCounters(pos)
		return
	}
	fg.note("callback passed to " + name + ": simple local closure, only its captured variables are havoced")
	for bi, b := range mc.Bindings {
		bv := fg.val(b)
		// the captured cell
		cellT := derefType(bv.T)
		if cellT == nil {
			continue
		}
		// elements of a captured slice (as it is now and as the closure may leave it)
		cell := fg.load(fg.derefQuiet(bv))
		if st, ok := types.Unalias(cellT).Underlying().(*types.Slice); ok && len(cell.L) == 4 {
			for _, leaf := range layout(st.Elem()) {
				comp := "E:" + typeKey(st.Elem()) + leaf.Path
				fg.get(fg.cur, comp, ArrSort(ArrSort(leaf.Sort)))
				fg.havocEntry(modEntry{comp: comp, elem: true, arr: cell.L[0]}, pos)
			}
		}
		// the variable itself changes only if the closure assigns it (a simple closure stores only to captured
		// variables and to elements of captured slices)
		if !closureAssigns(mc.Fn.(*ssa.Function), bi) {
			continue
		}
		fg.havocReachable(bv, pos)
		if pfx, ok := fg.privateRefs[bv.L[0].S]; ok {
			for _, comp := range append([]string{}, fg.compOrder...) {
				if strings.HasPrefix(comp, "H:"+pfx) {
					fg.havocComp(comp)
				}
			}
		}
	}
}

// localAssignedByClosure: the private-local component belongs to a variable that some closure of this function
// (transitively) may assign; variables that closures only read keep their value across callbacks.
func (fg *FnGen) localAssignedByClosure(comp string) bool {
	if fg.closureWritten == nil {
		fg.closureWritten = map[string]bool{}
		for _, b := range fg.fn.Blocks {
			for _, ins := range b.Instrs {
				a, ok := ins.(*ssa.Alloc)
				if !ok || a.Referrers() == nil {
					continue
				}
				captured := false
				for _, r := range *a.Referrers() {
					if _, ok := r.(*ssa.MakeClosure); ok {
						captured = true
					}
				}
				if captured && !closuresOnlyRead(a, 0) {
					fg.closureWritten["H:local!"+fg.fn.Name()+"!"+a.Name()+"!"] = true
				}
			}
		}
	}
	for pfx := range fg.closureWritten {
		if strings.HasPrefix(comp, pfx) {
			return true
		}
	}
	return false
}

// closureAssigns: the closure stores directly to its i-th captured variable.
func closureAssigns(fn *ssa.Function, i int) bool {
	if i >= len(fn.FreeVars) {
		return true
	}
	fv := fn.FreeVars[i]
	if fv.Referrers() == nil {
		return false
	}
	for _, r := range *fv.Referrers() {
		switch x := r.(type) {
		case *ssa.Store:
			if x.Addr == ssa.Value(fv) {
				return true
			}
		case *ssa.UnOp, *ssa.DebugRef:
		default:
			return true // address used in another way (field of a captured struct, nested closure...): assume assigned
		}
	}
	return false
}

// closureIsSimple: stores only to captured variables or elements of captured slices; no calls except
// builtins len/cap and contracted pure functions.
func closureIsSimple(fn *ssa.Function, g *Gen) bool {
	isFree := func(v ssa.Value) bool { _, ok := v.(*ssa.FreeVar); return ok }
	for _, b := range fn.Blocks {
		for _, ins := range b.Instrs {
			switch x := ins.(type) {
			case *ssa.Store:
				switch a := x.Addr.(type) {
				case *ssa.FreeVar:
				case *ssa.IndexAddr:
					u, ok := a.X.(*ssa.UnOp)
					if !ok || !isFree(u.X) {
						return false
					}
				default:
					_ = a
					return false
				}
			case *ssa.Call:
				if bi, ok := x.Call.Value.(*ssa.Builtin); ok {
					switch bi.Name() {
					case "len", "cap", "min", "max":
						continue
					}
					return false
				}
				callee := x.Call.StaticCallee()
				if callee == nil {
					if x.Call.IsInvoke() {
						if con := g.contractForMethod(x.Call.Value.Type(), x.Call.Method.Name()); con != nil && con.Pure {
							continue
						}
					}
					return false
				}
				if con := g.contractFor(callee); con != nil && con.Pure {
					continue
				}
				return false
			case *ssa.Go, *ssa.Defer, *ssa.Send, *ssa.MapUpdate, *ssa.MakeClosure, *ssa.Select:
				return false
			}
		}
	}
	return true
}

func modMentionsNonHeap(m CExpr, con *Contract, fg *FnGen) bool {
	src := m.cstr()
	if strings.HasPrefix(src, "held(") {
		return true
	}
	if strings.HasPrefix(src, "allof(") {
		for _, d := range fg.g.cs.Decls {
			if d.Kind == "ghostfield" && len(d.Args) >= 1 && src == "allof("+d.Args[0]+")" {
				return true
			}
		}
		return false
	}
	for _, d := range fg.g.cs.Decls {
		if d.Kind == "ghostfield" && len(d.Args) >= 1 {
			tf := d.Args[0]
			if k := strings.LastIndex(tf, "."); k > 0 && strings.HasSuffix(src, "."+tf[k+1:]) {
				return true
			}
		}
	}
	return false
}

// externalFuncType: a named function type declared outside the repository (e.g. context.CancelFunc).
func (g *Gen) externalFuncType(T types.Type) bool {
	n, ok := types.Unalias(T).(*types.Named)
	if !ok || n.Obj().Pkg() == nil {
		return false
	}
	if _, isSig := n.Underlying().(*types.Signature); !isSig {
		return false
	}
	return !g.inRepo(n.Obj().Pkg().Path())
}

// checkStableMaps: `decl stablemaps map[K]V`: maps of this type are updated (m[k] = v, delete, clear) only while
// they are under construction in the function that made them, anywhere in the declaring package.
func (g *Gen) checkStableMaps(d *Decl) *Obligation {
	sp := g.ssaPkgs[d.PkgPath]
	if sp == nil {
		return nil
	}
	ts := strings.Join(d.Args, " ")
	name := g.shortPkg(d.PkgPath) + "." + sanitize(ts) + "#stable.maps"
	T := g.resolveTypeString(ts, d.PkgPath)
	mt, ok := T.(*types.Map)
	if T == nil || !ok {
		return &Obligation{Name: name, Kind: "stable", Fn: ts, Desc: "unknown map type", NAsserts: -1,
			Res: SolverResult{Result: "unknown", Output: "cannot resolve map type " + ts}}
	}
	prefix := mapComp(mt)
	g.stable[prefix] = map[string]bool{}
	var offenders []string
	var fresh func(v ssa.Value, seen map[ssa.Value]bool) bool
	fresh = func(v ssa.Value, seen map[ssa.Value]bool) bool {
		if seen[v] {
			return true
		}
		seen[v] = true
		switch x := v.(type) {
		case *ssa.MakeMap:
			return true
		case *ssa.Const:
			return x.Value == nil
		case *ssa.Phi:
			for _, e := range x.Edges {
				if !fresh(e, seen) {
					return false
				}
			}
			return true
		case *ssa.ChangeType:
			return fresh(x.X, seen)
		}
		return false
	}
	sameMap := func(t types.Type) bool {
		m, ok := types.Unalias(t).Underlying().(*types.Map)
		return ok && mapComp(m) == prefix
	}
	var visit func(fn *ssa.Function)
	visit = func(fn *ssa.Function) {
		for _, b := range fn.Blocks {
			for _, ins := range b.Instrs {
				switch x := ins.(type) {
				case *ssa.MapUpdate:
					if sameMap(x.Map.Type()) && !fresh(x.Map, map[ssa.Value]bool{}) {
						offenders = append(offenders, fnKey(fn)+" ("+g.fset.Position(x.Pos()).String()+")")
					}
				case *ssa.Call:
					if bi, ok := x.Call.Value.(*ssa.Builtin); ok && (bi.Name() == "delete" || bi.Name() == "clear") && len(x.Call.Args) > 0 {
						if sameMap(x.Call.Args[0].Type()) && !fresh(x.Call.Args[0], map[ssa.Value]bool{}) {
							offenders = append(offenders, fnKey(fn)+" "+bi.Name()+" ("+g.fset.Position(x.Pos()).String()+")")
						}
					}
				}
			}
		}
		for _, a := range fn.AnonFuncs {
			visit(a)
		}
	}
	for _, m := range sp.Members {
		switch x := m.(type) {
		case *ssa.Function:
			visit(x)
		case *ssa.Type:
			for _, TT := range []types.Type{x.Type(), types.NewPointer(x.Type())} {
				ms := g.prog.MethodSets.MethodSet(TT)
				for i := 0; i < ms.Len(); i++ {
					if fn := g.prog.MethodValue(ms.At(i)); fn != nil && fn.Synthetic == "" && fn.Pkg == sp {
						visit(fn)
					}
				}
			}
		}
	}
	o := &Obligation{Name: name, Kind: "stable", Fn: ts, Desc: "maps of type " + ts + " are updated only while under construction in the function that made them", NAsserts: -1}
	if len(offenders) == 0 {
		o.Res = SolverResult{Result: "unsat", Solver: "ssa-scan"}
	} else {
		sort.Strings(offenders)
		o.Res = SolverResult{Result: "unknown", Output: "also updated by: " + strings.Join(dedupe(offenders), "; ")}
	}
	return o
}
