package main

// Locks, atomics, channels: modular typestate only (no interleavings are explored).
//
//   held:<lockpath>   (Array Int Bool)  ghost: this goroutine holds the mutex at <base>
//   A:<fieldpath>     (Array Int τ)     last value of an atomic field seen/written by this goroutine;
//                                       every Load first havocs it (other goroutines may write), subject
//                                       to declared monotonicity and to stability under its guarding lock
//   cnt:closed:<chanpath>               ghost counter of close() events

import (
	"fmt"
	"go/token"
	"go/types"
	"strings"

	"golang.org/x/tools/go/ssa"
)

func staticCalleeFullName(cc *ssa.CallCommon) string {
	fn := cc.StaticCallee()
	if fn == nil {
		return ""
	}
	if fn.Origin() != nil {
		fn = fn.Origin()
	}
	return fn.String()
}

// lockKey returns the ghost component and index for a mutex receiver.
func (fg *FnGen) lockKey(recv *Val) (comp string, idx Term) {
	if recv.Loc != nil {
		if recv.Loc.Elem {
			panic(unsupported("mutex inside a slice element"))
		}
		return recv.Loc.Prefix, recv.Loc.Base
	}
	T := derefType(recv.T)
	return typeKey(T), recv.one()
}

func (fg *FnGen) declFor(kind, path string) *Decl {
	for _, d := range fg.g.cs.Decls {
		if d.Kind == kind && len(d.Args) > 0 && (d.Args[0] == path || strings.HasSuffix(path, "."+d.Args[0])) {
			return d
		}
	}
	// a field of a struct that is itself a (value) field of another struct: pkg.A.b.f is the field f of the type of
	// A.b; declarations are written against that type (T.f)
	if alt := fg.g.nestedFieldOwner(path); alt != "" {
		for _, d := range fg.g.cs.Decls {
			if d.Kind == kind && len(d.Args) > 0 && (d.Args[0] == alt || strings.HasSuffix(alt, "."+d.Args[0])) {
				return d
			}
		}
	}
	return nil
}

// nestedFieldOwner: for a component path pkg.A.b.c.f returns pkg2.T.f where T is the named struct type of A.b.c;
// "" when the path is not nested or cannot be resolved.
func (g *Gen) nestedFieldOwner(path string) string {
	if g.nestedOwnerCache == nil {
		g.nestedOwnerCache = map[string]string{}
	}
	if r, ok := g.nestedOwnerCache[path]; ok {
		return r
	}
	res := ""
	parts := strings.Split(path, ".")
	if len(parts) >= 4 {
		// parts[0] = package name, parts[1] = type name, parts[2:] = fields
		for pp, p := range g.allPkgs {
			if p.Name != parts[0] || p.Types == nil {
				continue
			}
			o := p.Types.Scope().Lookup(parts[1])
			if o == nil {
				continue
			}
			T := o.Type()
			ok := true
			for _, f := range parts[2 : len(parts)-1] {
				st, isSt := types.Unalias(T).Underlying().(*types.Struct)
				if !isSt {
					ok = false
					break
				}
				found := false
				for i := 0; i < st.NumFields(); i++ {
					if st.Field(i).Name() == f {
						T = st.Field(i).Type()
						found = true
						break
					}
				}
				if !found {
					ok = false
					break
				}
			}
			if !ok {
				continue
			}
			if n, isN := types.Unalias(T).(*types.Named); isN {
				if _, isSt := n.Underlying().(*types.Struct); isSt {
					res = typeKey(n) + "." + parts[len(parts)-1]
					_ = pp
					break
				}
			}
		}
	}
	g.nestedOwnerCache[path] = res
	return res
}

func (fg *FnGen) concurrencyCall(cc *ssa.CallCommon, args []*Val, resT types.Type, pos token.Pos) (*Val, bool) {
	full := staticCalleeFullName(cc)
	if full == "" {
		return nil, false
	}
	switch full {
	case "(*sync.Mutex).Lock", "(*sync.RWMutex).Lock":
		comp, idx := fg.lockKey(args[0])
		fg.lockAcquire("held:"+comp, idx, pos, comp)
		return nil, true
	case "(*sync.Mutex).Unlock", "(*sync.RWMutex).Unlock":
		comp, idx := fg.lockKey(args[0])
		fg.lockRelease("held:"+comp, idx, pos, comp)
		return nil, true
	case "(*sync.RWMutex).RLock":
		comp, idx := fg.lockKey(args[0])
		fg.lockAcquire("rheld:"+comp, idx, pos, comp)
		return nil, true
	case "(*sync.RWMutex).RUnlock":
		comp, idx := fg.lockKey(args[0])
		fg.lockRelease("rheld:"+comp, idx, pos, comp)
		return nil, true
	case "(*sync.Mutex).TryLock", "(*sync.RWMutex).TryLock":
		comp, idx := fg.lockKey(args[0])
		ok := fg.fresh("trylock", SBool)
		a := fg.get(fg.cur, "held:"+comp, ArrSort(SBool))
		fg.set("held:"+comp, Store(a, idx, Or(Select(a, idx), ok)))
		return &Val{T: resT, L: []Term{ok}}, true
	}
	if strings.HasPrefix(full, "(*sync/atomic.") {
		return fg.atomicCall(full, args, resT, pos)
	}
	return nil, false
}

func (fg *FnGen) lockAcquire(comp string, idx Term, pos token.Pos, path string) {
	a := fg.get(fg.cur, comp, ArrSort(SBool))
	if fg.safety("locks") {
		fg.oblige("lock.reentry", path, Not(Select(a, idx)), pos, "mutex is not already held by this goroutine (self-deadlock)")
	}
	fg.set(comp, Store(a, idx, TTrue))
	// lock invariant may be assumed
	if d := fg.declFor("lockinv", path); d != nil && d.Expr != nil {
		env := fg.env(fg.cur, fg.entry, map[string]*Val{"self": fg.lockOwnerVal(d, idx)})
		env.selfPath = path
		fg.assume(fg.evalBool(d.Expr, env))
	}
	// atomics guarded by this lock become stable: forget stale knowledge now, keep it while held
	fg.havocAtomicsGuardedBy(path, idx)
	fg.clearObservations(path, idx)
}

// lockOwnerVal: `self` in a lock invariant `decl lockinv T.mu: expr` is the object that owns the mutex, typed *T.
func (fg *FnGen) lockOwnerVal(d *Decl, idx Term) *Val {
	if len(d.Args) > 0 {
		if k := strings.LastIndex(d.Args[0], "."); k > 0 {
			if T := fg.g.resolveTypeString(d.Args[0][:k], d.PkgPath); T != nil {
				return &Val{T: types.NewPointer(T), L: []Term{idx}}
			}
		}
	}
	return &Val{T: types.Typ[types.Int], L: []Term{idx}}
}

// clearObservations: flag observations are valid only within one critical section of the guarding lock.
func (fg *FnGen) clearObservations(lockPath string, idx Term) {
	for _, d := range fg.g.cs.Decls {
		if d.Kind != "guarded" || len(d.Args) < 5 || d.Args[3] != "when" {
			continue
		}
		i := strings.LastIndex(lockPath, ".")
		if i < 0 {
			continue
		}
		lk := d.Args[2]
		if j := strings.LastIndex(lk, "."); j >= 0 {
			lk = lk[j+1:]
		}
		tn := d.Args[0]
		if j := strings.LastIndex(tn, "."); j >= 0 {
			tn = tn[:j]
		}
		if lockPath[i+1:] != lk || !strings.HasSuffix(lockPath[:i], tn) {
			continue
		}
		flag := strings.TrimPrefix(d.Args[4], "!")
		comp := "obs:" + lockPath[:i] + "." + flag
		a := fg.get(fg.cur, comp, ArrSort(SBool))
		fg.set(comp, Store(a, idx, TFalse))
	}
}

// recordObservation: an atomic flag was loaded; if a guarded declaration refers to it, remember whether
// the wanted value was seen while the guarding lock is held.
func (fg *FnGen) recordObservation(flagPath string, idx Term, val Term) {
	if val.Sort != SBool {
		return
	}
	for _, d := range fg.g.cs.Decls {
		if d.Kind != "guarded" || len(d.Args) < 5 || d.Args[3] != "when" {
			continue
		}
		neg := strings.HasPrefix(d.Args[4], "!")
		flag := strings.TrimPrefix(d.Args[4], "!")
		tn := d.Args[0]
		if j := strings.LastIndex(tn, "."); j >= 0 {
			tn = tn[:j]
		}
		i := strings.LastIndex(flagPath, ".")
		if i < 0 || flagPath[i+1:] != flag || !strings.HasSuffix(flagPath[:i], tn) {
			continue
		}
		lk := d.Args[2]
		if j := strings.LastIndex(lk, "."); j >= 0 {
			lk = lk[j+1:]
		}
		lockPath := flagPath[:i] + "." + lk
		h := fg.get(fg.cur, "held:"+lockPath, ArrSort(SBool))
		want := val
		if neg {
			want = Not(val)
		}
		comp := "obs:" + flagPath
		a := fg.get(fg.cur, comp, ArrSort(SBool))
		fg.set(comp, Store(a, idx, And(Select(h, idx), want)))
	}
}

func (fg *FnGen) lockRelease(comp string, idx Term, pos token.Pos, path string) {
	a := fg.get(fg.cur, comp, ArrSort(SBool))
	if fg.safety("locks") {
		fg.oblige("lock.held", path, Select(a, idx), pos, "unlock of a mutex that is held")
	}
	if d := fg.declFor("lockinv", path); d != nil && d.Expr != nil {
		env := fg.env(fg.cur, fg.entry, map[string]*Val{"self": fg.lockOwnerVal(d, idx)})
		env.selfPath = path
		fg.oblige("lockinv", path, fg.evalBool(d.Expr, env), pos, "lock invariant re-established at unlock: "+d.Src)
	}
	fg.set(comp, Store(a, idx, TFalse))
	fg.clearObservations(path, idx)
}

// atomics -------------------------------------------------------------------------------

func (fg *FnGen) atomicKey(recv *Val) (comp string, idx Term, elemSort Sort, path string) {
	T := derefType(recv.T)
	sort := SInt
	if n, ok := types.Unalias(T).(*types.Named); ok && n.Obj().Name() == "Bool" {
		sort = SBool
	}
	if recv.Loc != nil {
		if recv.Loc.Elem {
			panic(unsupported("atomic inside a slice element"))
		}
		return "A:" + recv.Loc.Prefix, recv.Loc.Base, sort, recv.Loc.Prefix
	}
	return "A:" + typeKey(T), recv.one(), sort, typeKey(T)
}

// atomicRefresh models interference: another goroutine may have changed the value, unless the field
// is declared `guarded-atomic <path> by <lock>` and that lock is held, or monotone and already at its
// final value.
func (fg *FnGen) atomicRefresh(comp string, idx Term, sort Sort, path string) Term {
	a := fg.get(fg.cur, comp, ArrSort(sort))
	old := Select(a, idx)
	nv := fg.fresh("atomic", sort)
	var stable Term = TFalse
	if d := fg.declFor("atomicguard", path); d != nil && len(d.Args) >= 3 {
		// decl atomicguard T.f by T.lock   : writes happen only while T.lock (same base object) is held
		lockPath := fg.resolveSiblingPath(path, d.Args[2])
		h := fg.get(fg.cur, "held:"+lockPath, ArrSort(SBool))
		stable = Select(h, idx)
	}
	if d := fg.declFor("monotone", path); d != nil && sort == SBool {
		// false -> true only
		stable = Or(stable, old)
	}
	val := Ite(stable, old, nv)
	if d := fg.declFor("monotone", path); d != nil && sort == SInt {
		fg.assume(Ge(nv, old))
	}
	fg.set(comp, Store(a, idx, val))
	return val
}

func (fg *FnGen) resolveSiblingPath(path, sibling string) string {
	// path = "pkg.T.f", sibling = "T.lock" or "lock"
	i := strings.LastIndex(path, ".")
	base := path[:i]
	if j := strings.LastIndex(sibling, "."); j >= 0 {
		sibling = sibling[j+1:]
	}
	return base + "." + sibling
}

func (fg *FnGen) havocAtomicsGuardedBy(lockPath string, idx Term) {
	for _, d := range fg.g.cs.Decls {
		if d.Kind != "atomicguard" || len(d.Args) < 3 {
			continue
		}
		// find the full path of the atomic: same prefix as lockPath
		i := strings.LastIndex(lockPath, ".")
		if i < 0 {
			continue
		}
		lk := d.Args[2]
		if j := strings.LastIndex(lk, "."); j >= 0 {
			lk = lk[j+1:]
		}
		if lockPath[i+1:] != lk {
			continue
		}
		f := d.Args[0]
		if j := strings.LastIndex(f, "."); j >= 0 {
			f = f[j+1:]
		}
		apath := lockPath[:i] + "." + f
		comp := "A:" + apath
		sort, ok := fg.compSorts[comp]
		if !ok {
			continue
		}
		elem := Sort(strings.TrimSuffix(strings.TrimPrefix(string(sort), "(Array Int "), ")"))
		a := fg.get(fg.cur, comp, sort)
		old := Select(a, idx)
		nv := fg.fresh("atomic", elem)
		if m := fg.declFor("monotone", apath); m != nil && elem == SBool {
			fg.set(comp, Store(a, idx, Or(old, nv)))
		} else {
			fg.set(comp, Store(a, idx, nv))
		}
	}
}

func (fg *FnGen) atomicCall(full string, args []*Val, resT types.Type, pos token.Pos) (*Val, bool) {
	i := strings.LastIndex(full, ".")
	method := full[i+1:]
	comp, idx, sort, path := fg.atomicKey(args[0])
	switch method {
	case "Load":
		v := fg.atomicRefresh(comp, idx, sort, path)
		fg.recordObservation(path, idx, v)
		r := &Val{T: resT, L: []Term{v}}
		if len(layout(resT)) != 1 {
			return fg.freshVal(resT, "atomic.load"), true
		}
		fg.assume(fg.valFacts(r))
		return r, true
	case "Store":
		fg.atomicWriteCheck(path, idx, args[1], pos)
		a := fg.get(fg.cur, comp, ArrSort(sort))
		if len(args[1].L) != 1 {
			fg.havocComp(comp)
			return nil, true
		}
		fg.set(comp, Store(a, idx, args[1].one()))
		return nil, true
	case "CompareAndSwap":
		cur := fg.atomicRefresh(comp, idx, sort, path)
		if len(args[1].L) != 1 {
			return fg.freshVal(resT, "cas"), true
		}
		ok := Eq(cur, args[1].one())
		okc := fg.fresh("cas", SBool)
		fg.assertRaw(Eq(okc, ok))
		fg.atomicWriteCheckCond(path, idx, okc, args[2], pos)
		a := fg.get(fg.cur, comp, ArrSort(sort))
		fg.set(comp, Store(a, idx, Ite(okc, args[2].one(), cur)))
		fg.casPermission(path, idx, okc, args, pos)
		return &Val{T: resT, L: []Term{okc}}, true
	case "Swap":
		cur := fg.atomicRefresh(comp, idx, sort, path)
		fg.atomicWriteCheck(path, idx, args[1], pos)
		a := fg.get(fg.cur, comp, ArrSort(sort))
		fg.set(comp, Store(a, idx, args[1].one()))
		return &Val{T: resT, L: []Term{cur}}, true
	case "Add":
		cur := fg.atomicRefresh(comp, idx, sort, path)
		nv := Add(cur, args[1].one())
		a := fg.get(fg.cur, comp, ArrSort(sort))
		fg.set(comp, Store(a, idx, nv))
		return &Val{T: resT, L: []Term{nv}}, true
	}
	return nil, false
}

func (fg *FnGen) atomicWriteCheck(path string, idx Term, v *Val, pos token.Pos) {
	fg.atomicWriteCheckCond(path, idx, TTrue, v, pos)
}

// obligations on every write of a declared atomic: monotone flags are never reset, guarded atomics
// are written under their lock.
func (fg *FnGen) atomicWriteCheckCond(path string, idx Term, cond Term, v *Val, pos token.Pos) {
	if d := fg.declFor("monotone", path); d != nil && len(v.L) == 1 && v.L[0].Sort == SBool {
		fg.obligeG("monotone", path, And(fg.curReach, cond), v.one(), pos, "monotone flag is only ever set to true")
	}
	if d := fg.declFor("atomicguard", path); d != nil && len(d.Args) >= 3 {
		lockPath := fg.resolveSiblingPath(path, d.Args[2])
		h := fg.get(fg.cur, "held:"+lockPath, ArrSort(SBool))
		fg.obligeG("atomicguard", path, And(fg.curReach, cond), Select(h, idx), pos, "guarded atomic is written only under "+lockPath)
	}
}

// guardedLoad: obligation at every load of a field declared `guarded T.f by T.mu [when cond]`.
func (fg *FnGen) guardedLoad(l *Loc, x ssa.Instruction) {
	if l.Elem {
		return
	}
	d := fg.declFor("guarded", l.Prefix)
	if d == nil || fg.c == nil {
		return
	}
	// Args: T.f by T.mu [when !T.flag]
	if len(d.Args) < 3 {
		return
	}
	lockPath := fg.resolveSiblingPath(l.Prefix, d.Args[2])
	h := fg.get(fg.cur, "held:"+lockPath, ArrSort(SBool))
	goal := Select(h, l.Base)
	// a read is also protected by the read side of an RWMutex
	if rh, ok := fg.compSorts["rheld:"+lockPath]; ok && rh == ArrSort(SBool) {
		goal = Or(goal, Select(fg.get(fg.cur, "rheld:"+lockPath, ArrSort(SBool)), l.Base))
	}
	desc := "field " + l.Prefix + " is read only while " + lockPath + " is held"
	if len(d.Args) >= 5 && d.Args[3] == "when" {
		flag := strings.TrimPrefix(d.Args[4], "!")
		fpath := fg.resolveSiblingPath(l.Prefix, flag)
		// obs:<flag>[base]: the flag was read with the wanted value while the guarding lock has been held
		// continuously since (cleared at every Lock/Unlock of that lock)
		o := fg.get(fg.cur, "obs:"+fpath, ArrSort(SBool))
		goal = And(goal, Select(o, l.Base))
		desc += " and " + d.Args[4] + " was observed under it (within the same critical section)"
	}
	fg.oblige("guard", l.Prefix, goal, x.Pos(), desc)
}

func (fg *FnGen) checkLocksAtReturn(pos token.Pos) {
	if fg.c == nil {
		return
	}
	for _, comp := range fg.compOrder {
		if !strings.HasPrefix(comp, "held:") && !strings.HasPrefix(comp, "rheld:") {
			continue
		}
		cur := fg.get(fg.cur, comp, ArrSort(SBool))
		old := fg.entry.ver[comp]
		if cur.S == old.S {
			continue
		}
		if fg.c.Safety["lockbalance-off"] {
			continue
		}
		// lock state at return equals lock state at entry, unless declared via acquires/releases
		r := Term{"r!", SInt}
		var excl []Term
		for _, e := range append(append([]CExpr{}, fg.c.Acquires...), fg.c.Releases...) {
			env := fg.env(fg.entry, fg.entry, nil)
			c2, idx := fg.evalLockPath(e, env)
			if c2 == comp || "r"+c2 == comp {
				excl = append(excl, Not(Eq(r, idx)))
			}
		}
		body := Implies(And(excl...), Eq(Select(cur, r), Select(old, r)))
		q := Term{fmt.Sprintf("(forall ((r! Int)) %s)", body.S), SBool}
		fg.oblige("lock.balance", strings.TrimPrefix(comp, "held:"), q, pos, "every mutex acquired is released on this path (except declared acquires/releases)")
	}
	for _, e := range fg.c.Acquires {
		env := fg.env(fg.cur, fg.entry, nil)
		comp, idx := fg.evalLockPath(e, env)
		cur := fg.get(fg.cur, comp, ArrSort(SBool))
		fg.oblige("lock.acquired", strings.TrimPrefix(comp, "held:"), Select(cur, idx), pos, "declared acquired mutex is held at return")
	}
	for _, e := range fg.c.Releases {
		env := fg.env(fg.cur, fg.entry, nil)
		comp, idx := fg.evalLockPath(e, env)
		cur := fg.get(fg.cur, comp, ArrSort(SBool))
		fg.oblige("lock.released", strings.TrimPrefix(comp, "held:"), Not(Select(cur, idx)), pos, "declared released mutex is not held at return")
	}
}

// channels ------------------------------------------------------------------------------

func (fg *FnGen) chanPath(v *Val, sv ssa.Value) (string, Term) {
	// a channel value loaded from a struct field: identify it by the field path and the base object
	if u, ok := sv.(*ssa.UnOp); ok && u.Op == token.MUL {
		if fa, ok := u.X.(*ssa.FieldAddr); ok {
			if a := fg.vals[fa]; a != nil && a.Loc != nil && !a.Loc.Elem {
				return a.Loc.Prefix, a.Loc.Base
			}
		}
	}
	return typeKey(v.T), v.one()
}

func (fg *FnGen) closeChan(ch *Val, pos token.Pos) {
	comp := "cnt:closed"
	fg.compSort(comp, SInt)
	cur := fg.get(fg.cur, comp, SInt)
	if fg.c != nil && fg.c.Safety["effects"] {
		fg.effectCheck(comp, pos)
	}
	fg.set(comp, Add(cur, IntLit(1)))
	// per-channel closed flag: closing twice panics
	cc := fg.get(fg.cur, "closed:chan", ArrSort(SBool))
	if fg.c != nil && fg.c.Safety["close"] {
		fg.oblige("close.once", "chan", Not(Select(cc, ch.one())), pos, "channel is not already closed by this function")
		fg.oblige("close.nonnil", "chan", Not(Eq(ch.one(), IntLit(0))), pos, "close of nil channel")
	}
	fg.set("closed:chan", Store(cc, ch.one(), TTrue))
}

// channel invariants: `decl chaninv T.f: expr(self)` is a rely/guarantee pair over the close of the channel in
// field f of a T: the closer establishes expr for the owning object (obligation at close(x.f)), and a goroutine that
// received from x.f (the channel carries no messages: only its close wakes a receiver - trusted, together with: the
// fields named in expr are not written after the close) may assume it.
func (fg *FnGen) chanInvDecl(sv ssa.Value) (*Decl, Term, bool) {
	u, ok := sv.(*ssa.UnOp)
	if !ok || u.Op != token.MUL {
		return nil, Term{}, false
	}
	fa, ok := u.X.(*ssa.FieldAddr)
	if !ok {
		return nil, Term{}, false
	}
	a := fg.vals[fa]
	if a == nil || a.Loc == nil || a.Loc.Elem {
		return nil, Term{}, false
	}
	d := fg.declFor("chaninv", a.Loc.Prefix)
	if d == nil || d.Expr == nil {
		return nil, Term{}, false
	}
	return d, a.Loc.Base, true
}

func (fg *FnGen) chanInvAtClose(ch *Val, sv ssa.Value, pos token.Pos) {
	d, base, ok := fg.chanInvDecl(sv)
	if !ok {
		return
	}
	env := fg.env(fg.cur, fg.entry, map[string]*Val{"self": fg.lockOwnerVal(d, base)})
	fg.oblige("chaninv", d.Args[0], fg.evalBool(d.Expr, env), pos, "channel invariant established before close: "+d.Src)
}

func (fg *FnGen) chanInvAfterRecv(sv ssa.Value, cond Term) {
	d, base, ok := fg.chanInvDecl(sv)
	if !ok {
		return
	}
	env := fg.env(fg.cur, fg.entry, map[string]*Val{"self": fg.lockOwnerVal(d, base)})
	fg.assume(Implies(cond, fg.evalBool(d.Expr, env)))
	fg.note("channel invariant assumed after receiving from " + d.Args[0] + " (rely: the channel is only ever closed, never sent on, and the fields of the invariant are not written after the close)")
}

// context.Context (assumed contract of the standard library): Done's channel is closed when the context ends, and
// "if Done is closed, Err returns a non-nil error". A receive from ctx.Done() marks that context as done; Err on a
// context marked done returns non-nil.
func isContextType(T types.Type) bool {
	n, ok := types.Unalias(T).(*types.Named)
	return ok && n.Obj().Pkg() != nil && n.Obj().Pkg().Path() == "context" && n.Obj().Name() == "Context"
}

func (fg *FnGen) ctxDoneAfterRecv(sv ssa.Value, cond Term) {
	c, ok := sv.(*ssa.Call)
	if !ok || !c.Call.IsInvoke() || c.Call.Method.Name() != "Done" || !isContextType(c.Call.Value.Type()) {
		return
	}
	v := fg.val(c.Call.Value)
	if len(v.L) != 2 {
		return
	}
	fg.compSort("ctxdone", ArrSort(ArrSort(SBool)))
	cur := fg.get(fg.cur, "ctxdone", ArrSort(ArrSort(SBool)))
	inner := Select(cur, v.L[0])
	fg.set("ctxdone", Store(cur, v.L[0], Store(inner, v.L[1], Or(Select(inner, v.L[1]), cond))))
}

func (fg *FnGen) ctxErrAfterCall(cc *ssa.CallCommon, args []*Val, res *Val) {
	if !cc.IsInvoke() || cc.Method.Name() != "Err" || !isContextType(cc.Value.Type()) || res == nil || len(args) == 0 || len(args[0].L) != 2 {
		return
	}
	fg.compSort("ctxdone", ArrSort(ArrSort(SBool)))
	cur := fg.get(fg.cur, "ctxdone", ArrSort(ArrSort(SBool)))
	fg.assume(Implies(Select(Select(cur, args[0].L[0]), args[0].L[1]), Not(fg.isNil(res))))
	fg.note("assumed contract of context.Context: after a receive from ctx.Done(), ctx.Err() is non-nil")
}

func (fg *FnGen) send(x *ssa.Send) {
	fg.note("channel send: no effect on modelled state")
	comp := "cnt:chansend"
	cur := fg.get(fg.cur, comp, SInt)
	fg.set(comp, Add(cur, IntLit(1)))
}

func (fg *FnGen) recv(x *ssa.UnOp) {
	T := x.Type()
	r := fg.freshVal(T, "recv")
	fg.assume(fg.valFacts(r))
	fg.assume(fg.allocFacts(r))
	fg.bind(x, r)
	// blocking: other goroutines run meanwhile
	fg.interference("channel receive")
	if !x.CommaOk || true {
		fg.atWait([]Term{fg.val(x.X).one()}, x.Pos())
	}
	fg.chanInvAfterRecv(x.X, TTrue)
	fg.ctxDoneAfterRecv(x.X, TTrue)
}

// atWait: a blocking wait (plain receive, or select without default) is the pseudo call "$wait"; contracts
// state what such waits must listen to (`at call $wait: assert waitson(g_done)`).
func (fg *FnGen) atWait(chans []Term, pos token.Pos) {
	saved := fg.waitChans
	fg.waitChans = chans
	fg.atCallAsserts("$wait", nil, pos)
	fg.atCallGhosts("$wait", nil, nil, pos)
	fg.waitChans = saved
}

// interference: at a blocking operation other goroutines may run; unguarded shared state changes.
// Only atomics are refreshed (they are refreshed at every Load anyway); ordinary heap is assumed to
// be protected by the locking discipline (data-race freedom is an assumption of the model).
func (fg *FnGen) interference(why string) {
	fg.note("data-race freedom assumed: ordinary (non-atomic) memory is not changed by other goroutines between this goroutine's accesses except under the declared lock invariants")
}

func (fg *FnGen) selectInstr(x *ssa.Select) {
	r := fg.freshVal(x.Type(), "select")
	fg.assume(fg.valFacts(r))
	idx := r.L[0]
	lo := IntLit(0)
	if !x.Blocking {
		lo = IntLit(-1)
	}
	fg.assume(And(Le(lo, idx), Lt(idx, IntLit(int64(len(x.States))))))
	fg.bind(x, r)
	if x.Blocking {
		var chans []Term
		for _, st := range x.States {
			if st.Dir == types.RecvOnly {
				chans = append(chans, fg.val(st.Chan).one())
			}
		}
		fg.atWait(chans, x.Pos())
	}
	for i, st := range x.States {
		if st.Dir == types.RecvOnly {
			fg.chanInvAfterRecv(st.Chan, Eq(idx, IntLit(int64(i))))
			fg.ctxDoneAfterRecv(st.Chan, Eq(idx, IntLit(int64(i))))
		}
	}
}

// guardedStore: stores to a plain field declared `guarded T.f by T.mu` need the lock as well.
func (fg *FnGen) guardedStore(l *Loc, pos token.Pos) {
	if l.Elem || fg.c == nil {
		return
	}
	d := fg.declFor("guarded", l.Prefix)
	if d == nil || len(d.Args) < 3 {
		return
	}
	if fg.isFreshBase(l.Base) {
		return
	}
	lockPath := fg.resolveSiblingPath(l.Prefix, d.Args[2])
	h := fg.get(fg.cur, "held:"+lockPath, ArrSort(SBool))
	fg.oblige("guard.store", l.Prefix, Or(Select(h, l.Base), Ge(l.Base, fg.allocEntry)), pos, "field "+l.Prefix+" is written only while "+lockPath+" is held (or on an object created by this call)")
}

func (fg *FnGen) isFreshBase(base Term) bool {
	for _, r := range fg.localAllocs {
		if r.S == base.S {
			return true
		}
	}
	return false
}

// casPermission: `decl closeperm T.perm from cas T.flag` — the winning CompareAndSwap(false,true) on a
// monotone flag creates the (unique) permission T.perm. Discipline invariant (DESIGN §2.7): perm is only
// ever created here and the flag is monotone, hence perm => flag; a successful CAS saw flag == false,
// so no permission existed before.
func (fg *FnGen) casPermission(flagPath string, idx Term, success Term, args []*Val, pos token.Pos) {
	for _, d := range fg.g.cs.Decls {
		if d.Kind != "closeperm" || len(d.Args) < 4 {
			continue
		}
		flag := d.Args[3]
		if !strings.HasSuffix(flagPath, "."+flag) && !strings.HasSuffix(flagPath, flag) {
			continue
		}
		// only CAS(false, true)
		if len(args) < 3 || args[1].one().S != "false" || args[2].one().S != "true" {
			continue
		}
		pf := d.Args[0]
		k := strings.LastIndex(pf, ".")
		i := strings.LastIndex(flagPath, ".")
		if k < 0 || i < 0 {
			continue
		}
		comp := "H:" + flagPath[:i] + ".$" + pf[k+1:]
		a := fg.get(fg.cur, comp, ArrSort(SBool))
		fg.assume(Implies(success, Not(Select(a, idx))))
		fg.ghostFieldWriteCheck(&Loc{Prefix: strings.TrimPrefix(comp, "H:")}, pos)
		fg.set(comp, Store(a, idx, Or(Select(a, idx), success)))
		fg.note("discipline invariant: " + pf + " implies " + flag + " (permission is created only by the winning CAS on the monotone flag)")
	}
}
