package main

// Flattened value layout: every Go type is a list of scalar leaves (SMT Int or Bool).
// Heap: one SMT array per (type, leaf path).

import (
	"fmt"
	"go/types"
	"math/big"
	"strings"
)

type Leaf struct {
	Path string     // "" for scalars, ".f.g" for nested struct fields, ".arr/.off/.len/.cap" for slices
	Sort Sort       // Int or Bool
	T    types.Type // scalar Go type of the leaf (for range assumptions); nil for synthetic leaves
	Role string     // "", "arr", "off", "len", "cap", "tag", "val"
}

func qual(p *types.Package) string {
	if p == nil {
		return ""
	}
	return p.Name()
}

func typeKey(T types.Type) string {
	T = types.Unalias(T)
	switch t := T.(type) {
	case *types.Named:
		return types.TypeString(t, qual)
	}
	return types.TypeString(T, qual)
}

var layoutCache = map[types.Type][]Leaf{}

func layout(T types.Type) []Leaf {
	if l, ok := layoutCache[T]; ok {
		return l
	}
	l := layout0(T)
	layoutCache[T] = l
	return l
}

func layout0(T types.Type) []Leaf {
	switch t := types.Unalias(T).Underlying().(type) {
	case *types.Basic:
		if t.Info()&types.IsBoolean != 0 {
			return []Leaf{{"", SBool, T, ""}}
		}
		return []Leaf{{"", SInt, T, ""}}
	case *types.Pointer, *types.Map, *types.Chan, *types.Signature, *types.TypeParam:
		return []Leaf{{"", SInt, T, ""}}
	case *types.Array:
		return []Leaf{{"", SInt, T, ""}}
	case *types.Slice:
		return []Leaf{{".arr", SInt, nil, "arr"}, {".off", SInt, nil, "off"}, {".len", SInt, nil, "len"}, {".cap", SInt, nil, "cap"}}
	case *types.Interface:
		return []Leaf{{".tag", SInt, nil, "tag"}, {".val", SInt, nil, "val"}}
	case *types.Struct:
		var ls []Leaf
		for i := 0; i < t.NumFields(); i++ {
			f := t.Field(i)
			for _, sub := range layout(f.Type()) {
				ls = append(ls, Leaf{"." + f.Name() + sub.Path, sub.Sort, sub.T, sub.Role})
			}
		}
		return ls
	case *types.Tuple:
		var ls []Leaf
		for i := 0; i < t.Len(); i++ {
			for _, sub := range layout(t.At(i).Type()) {
				ls = append(ls, Leaf{fmt.Sprintf(".$%d%s", i, sub.Path), sub.Sort, sub.T, sub.Role})
			}
		}
		return ls
	}
	return []Leaf{{"", SInt, T, ""}}
}

// fieldRange returns the [start,end) range of leaves of struct type S occupied by field i.
func fieldRange(S *types.Struct, i int) (int, int) {
	start := 0
	for k := 0; k < i; k++ {
		start += len(layout(S.Field(k).Type()))
	}
	return start, start + len(layout(S.Field(i).Type()))
}

func tupleRange(tp *types.Tuple, i int) (int, int) {
	start := 0
	for k := 0; k < i; k++ {
		start += len(layout(tp.At(k).Type()))
	}
	return start, start + len(layout(tp.At(i).Type()))
}

// intRange returns the value range of an integer Go type (64-bit platform).
func intRange(T types.Type) (lo, hi *big.Int, ok bool) {
	b, isB := types.Unalias(T).Underlying().(*types.Basic)
	if !isB || b.Info()&types.IsInteger == 0 {
		return nil, nil, false
	}
	bits := 64
	unsigned := b.Info()&types.IsUnsigned != 0
	switch b.Kind() {
	case types.Int8, types.Uint8:
		bits = 8
	case types.Int16, types.Uint16:
		bits = 16
	case types.Int32, types.Uint32:
		bits = 32
	case types.UntypedInt, types.UntypedRune:
		return nil, nil, false
	}
	one := big.NewInt(1)
	if unsigned {
		hi = new(big.Int).Sub(new(big.Int).Lsh(one, uint(bits)), one)
		return big.NewInt(0), hi, true
	}
	hi = new(big.Int).Sub(new(big.Int).Lsh(one, uint(bits-1)), one)
	lo = new(big.Int).Neg(new(big.Int).Lsh(one, uint(bits-1)))
	return lo, hi, true
}

func isStringType(T types.Type) bool {
	b, ok := types.Unalias(T).Underlying().(*types.Basic)
	return ok && b.Info()&types.IsString != 0
}

func isFloatType(T types.Type) bool {
	b, ok := types.Unalias(T).Underlying().(*types.Basic)
	return ok && b.Info()&(types.IsFloat|types.IsComplex) != 0
}

func isBoolType(T types.Type) bool {
	b, ok := types.Unalias(T).Underlying().(*types.Basic)
	return ok && b.Info()&types.IsBoolean != 0
}

func isIntType(T types.Type) bool {
	b, ok := types.Unalias(T).Underlying().(*types.Basic)
	return ok && b.Info()&types.IsInteger != 0
}

func derefType(T types.Type) types.Type {
	if p, ok := types.Unalias(T).Underlying().(*types.Pointer); ok {
		return p.Elem()
	}
	return nil
}

func sanitize(s string) string {
	return strings.NewReplacer(" ", "_", "|", "!", "\\", "!", "\n", "_", "\t", "_").Replace(s)
}
