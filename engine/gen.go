package main

// Global generator state, values, locations, program states.

import (
	"fmt"
	"go/token"
	"go/types"
	"sort"
	"strings"

	"golang.org/x/tools/go/packages"
	"golang.org/x/tools/go/ssa"
)

type Val struct {
	T   types.Type
	L   []Term
	Loc *Loc
}

type Loc struct {
	Elem     bool
	Prefix   string
	Base     Term
	Arr, Idx Term
	T        types.Type
}

func (v *Val) one() Term {
	if v == nil {
		panic(unsupported("nil value"))
	}
	if v.Loc != nil {
		panic(unsupported("interior pointer used as a first-class value"))
	}
	if len(v.L) != 1 {
		panic(unsupported(fmt.Sprintf("value of type %s used as scalar (%d leaves)", v.T, len(v.L))))
	}
	return v.L[0]
}

type unsupported string

type State struct {
	ver    map[string]Term
	defers []*deferred
}

type deferred struct {
	instr *ssa.Defer
	args  []*Val
	guard Term // reach condition under which it was pushed (for conditional defers)
}

func (s *State) clone() *State {
	n := &State{ver: make(map[string]Term, len(s.ver))}
	for k, v := range s.ver {
		n.ver[k] = v
	}
	n.defers = append([]*deferred(nil), s.defers...)
	return n
}

// Gen is the whole-run generator.
type Gen struct {
	nestedOwnerCache map[string]string
	pkgs      []*packages.Package
	allPkgs   map[string]*packages.Package
	prog      *ssa.Program
	ssaPkgs   map[string]*ssa.Package
	fset      *token.FileSet
	cs        *ContractSet
	typeIDs   map[string]int
	strLits   map[string]int
	repoMod   string // module path prefix of the repository
	writeSets map[*ssa.Function]*writeSet
	cg        *callGraph
	compSortHints map[string]Sort
	stable    map[string]map[string]bool // stable field component prefix -> declared writers
	workDir   string
	timeoutS  int
	verbose   bool
}

type writeSet struct {
	comps map[string]bool
	all   bool
	allEvents bool
	why       []string
	done  bool
}

func (g *Gen) typeID(T types.Type) int {
	k := typeKey(T)
	if id, ok := g.typeIDs[k]; ok {
		return id
	}
	id := len(g.typeIDs) + 1
	g.typeIDs[k] = id
	return id
}

func (g *Gen) strLit(s string) int {
	if id, ok := g.strLits[s]; ok {
		return id
	}
	id := len(g.strLits) + 1
	g.strLits[s] = id
	return id
}

// fnKey computes the contract key of an SSA function within its package.
func fnKey(fn *ssa.Function) string {
	if fn.Parent() != nil {
		// anonymous function: Outer$N
		name := fn.Name() // e.g. "Outer$1"
		if fn.Parent().Signature.Recv() != nil {
			return recvName(fn.Parent().Signature.Recv().Type()) + "." + name
		}
		return name
	}
	if recv := fn.Signature.Recv(); recv != nil {
		return recvName(recv.Type()) + "." + fn.Name()
	}
	return fn.Name()
}

func recvName(T types.Type) string {
	T = types.Unalias(T)
	if p, ok := T.(*types.Pointer); ok {
		T = types.Unalias(p.Elem())
	}
	if n, ok := T.(*types.Named); ok {
		return n.Obj().Name()
	}
	return T.String()
}

func fnPkgPath(fn *ssa.Function) string {
	if fn.Pkg != nil {
		return fn.Pkg.Pkg.Path()
	}
	if fn.Parent() != nil {
		return fnPkgPath(fn.Parent())
	}
	if o := fn.Object(); o != nil && o.Pkg() != nil {
		return o.Pkg().Path()
	}
	if fn.Origin() != nil {
		return fnPkgPath(fn.Origin())
	}
	return ""
}

func (g *Gen) contractFor(fn *ssa.Function) *Contract {
	if fn == nil {
		return nil
	}
	f := fn
	if f.Origin() != nil {
		f = f.Origin()
		// a contract for one instantiation of a generic function: `func Sort[[]int,int]`
		if ta := fn.TypeArgs(); len(ta) > 0 {
			var as []string
			for _, t := range ta {
				as = append(as, types.TypeString(t, func(p *types.Package) string { return p.Name() }))
			}
			if c := g.cs.ByKey[fnPkgPath(f)+"::"+fnKey(f)+"["+strings.Join(as, ",")+"]"]; c != nil {
				return c
			}
		}
	}
	return g.cs.ByKey[fnPkgPath(f)+"::"+fnKey(f)]
}

func (g *Gen) contractForMethod(recv types.Type, name string) *Contract {
	T := types.Unalias(recv)
	if p, ok := T.(*types.Pointer); ok {
		T = types.Unalias(p.Elem())
	}
	if n, ok := T.(*types.Named); ok && n.Obj().Pkg() != nil {
		return g.cs.ByKey[n.Obj().Pkg().Path()+"::"+n.Obj().Name()+"."+name]
	}
	return nil
}

func (g *Gen) inRepo(pkgPath string) bool {
	return strings.HasPrefix(pkgPath, g.repoMod)
}

// Obligation is one named proof obligation.
type Obligation struct {
	Name     string
	Kind     string
	Fn       string
	Desc     string
	Pos      string
	Guard    Term
	Goal     Term
	NAsserts int
	NDecls   int
	fg       *FnGen
	Res      SolverResult
	Vacuity  bool // must be SAT (cover obligation)
	RelaxedModel bool
}

func sortedKeys[M ~map[string]V, V any](m M) []string {
	ks := make([]string, 0, len(m))
	for k := range m {
		ks = append(ks, k)
	}
	sort.Strings(ks)
	return ks
}

// resolveTypeString resolves "int", "bool", "pkg.Name", "*pkg.Name", "Name" (in pkgPath) to a Go type.
func (g *Gen) resolveTypeString(s, pkgPath string) types.Type {
	s = strings.TrimSpace(s)
	if strings.HasPrefix(s, "*") {
		if T := g.resolveTypeString(s[1:], pkgPath); T != nil {
			return types.NewPointer(T)
		}
		return nil
	}
	if strings.HasPrefix(s, "[]") {
		if T := g.resolveTypeString(s[2:], pkgPath); T != nil {
			return types.NewSlice(T)
		}
		return nil
	}
	if strings.HasPrefix(s, "map[") {
		// map[K]V with a bracket-balanced key
		depth := 0
		for i := 3; i < len(s); i++ {
			switch s[i] {
			case '[':
				depth++
			case ']':
				depth--
				if depth == 0 {
					K := g.resolveTypeString(s[4:i], pkgPath)
					V := g.resolveTypeString(s[i+1:], pkgPath)
					if K == nil || V == nil {
						return nil
					}
					return types.NewMap(K, V)
				}
			}
		}
		return nil
	}
	for _, b := range types.Typ {
		if b.Name() == s {
			return b
		}
	}
	if s == "byte" {
		return types.Typ[types.Uint8]
	}
	if i := strings.LastIndex(s, "."); i >= 0 {
		pn, tn := s[:i], s[i+1:]
		var cands []string
		if p := g.allPkgs[pkgPath]; p != nil {
			for path, imp := range p.Imports {
				if imp.Name == pn {
					cands = append(cands, path)
				}
			}
		}
		for path, p := range g.allPkgs {
			if p.Name == pn {
				cands = append(cands, path)
			}
		}
		for _, path := range cands {
			if p := g.allPkgs[path]; p != nil && p.Types != nil {
				if o := p.Types.Scope().Lookup(tn); o != nil {
					if _, ok := o.(*types.TypeName); ok {
						return o.Type()
					}
				}
			}
		}
		return nil
	}
	if p := g.allPkgs[pkgPath]; p != nil && p.Types != nil {
		if o := p.Types.Scope().Lookup(s); o != nil {
			if _, ok := o.(*types.TypeName); ok {
				return o.Type()
			}
		}
	}
	return nil
}
