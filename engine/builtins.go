package main

import (
	"fmt"
	"go/token"
	"go/types"

	"golang.org/x/tools/go/ssa"
)

func (fg *FnGen) builtin(b *ssa.Builtin, cc *ssa.CallCommon, resT types.Type, pos token.Pos) *Val {
	var args []*Val
	for _, a := range cc.Args {
		args = append(args, fg.val(a))
	}
	fg.atCallAsserts(b.Name(), args, pos)
	if b.Name() == "close" && len(cc.Args) == 1 {
		fg.chanInvAtClose(args[0], cc.Args[0], pos)
	}
	r := fg.builtinArgs(b, args, resT, pos)
	fg.atCallGhosts(b.Name(), args, r, pos)
	return r
}

func (fg *FnGen) builtinArgs(b *ssa.Builtin, args []*Val, resT types.Type, pos token.Pos) *Val {
	switch b.Name() {
	case "len":
		return &Val{T: resT, L: []Term{fg.lenOf(args[0])}}
	case "cap":
		a := args[0]
		switch types.Unalias(a.T).Underlying().(type) {
		case *types.Slice:
			return &Val{T: resT, L: []Term{a.L[3]}}
		}
		r := fg.freshVal(resT, "cap")
		fg.assume(Ge(r.one(), IntLit(0)))
		return r
	case "append":
		return fg.appendOp(args, resT, pos)
	case "copy":
		dst, src := args[0], args[1]
		n := fg.fresh("copied", SInt)
		dl := dst.L[2]
		sl := fg.lenOf(src)
		fg.assume(Eq(n, Ite(Lt(dl, sl), dl, sl)))
		st := types.Unalias(dst.T).Underlying().(*types.Slice)
		for _, leaf := range layout(st.Elem()) {
			comp := "E:" + typeKey(st.Elem()) + leaf.Path
			fg.get(fg.cur, comp, ArrSort(ArrSort(leaf.Sort)))
			fg.havocEntry(modEntry{comp: comp, elem: true, arr: dst.L[0]}, pos)
		}
		fg.note("copy(): destination elements are havoc (content not modelled)")
		return &Val{T: resT, L: []Term{n}}
	case "delete":
		fg.mapDelete(args[0], args[1], pos)
		return nil
	case "clear":
		a := args[0]
		switch t := types.Unalias(a.T).Underlying().(type) {
		case *types.Map:
			fg.mapClear(a, t, pos)
		case *types.Slice:
			for _, leaf := range layout(t.Elem()) {
				comp := "E:" + typeKey(t.Elem()) + leaf.Path
				fg.get(fg.cur, comp, ArrSort(ArrSort(leaf.Sort)))
				fg.havocEntry(modEntry{comp: comp, elem: true, arr: a.L[0]}, pos)
			}
		}
		return nil
	case "panic":
		fg.oblige("panic", "unreachable", TFalse, pos, "explicit panic is unreachable")
		return nil
	case "print", "println":
		return nil
	case "min", "max":
		x := args[0].one()
		for _, a := range args[1:] {
			y := a.one()
			if b.Name() == "min" {
				x = Ite(Le(x, y), x, y)
			} else {
				x = Ite(Ge(x, y), x, y)
			}
		}
		return &Val{T: resT, L: []Term{x}}
	case "close":
		fg.closeChan(args[0], pos)
		return nil
	case "recover":
		return fg.zeroVal(resT)
	case "new":
		T := derefType(resT)
		ref := fg.newRef()
		l := &Loc{Prefix: typeKey(T), Base: ref, T: T}
		z := fg.zeroVal(T)
		for i, leaf := range layout(T) {
			comp := fg.compName(l, leaf)
			a := fg.get(fg.cur, comp, ArrSort(leaf.Sort))
			fg.set(comp, Store(a, ref, z.L[i]))
		}
		return &Val{T: resT, L: []Term{ref}}
	}
	if resT == nil {
		return nil
	}
	fg.note("builtin " + b.Name() + " is abstracted (fresh result)")
	r := fg.freshVal(resT, b.Name())
	fg.assume(fg.valFacts(r))
	return r
}

func (fg *FnGen) lenOf(a *Val) Term {
	switch t := types.Unalias(a.T).Underlying().(type) {
	case *types.Slice:
		return a.L[2]
	case *types.Basic:
		return fg.strLen(a.one())
	case *types.Map:
		return fg.mapLen(fg.cur, a, t)
	case *types.Array:
		return IntLit(t.Len())
	case *types.Pointer:
		if at, ok := types.Unalias(t.Elem()).Underlying().(*types.Array); ok {
			return IntLit(at.Len())
		}
	case *types.Chan:
		r := fg.fresh("chanlen", SInt)
		fg.assume(Ge(r, IntLit(0)))
		return r
	}
	panic(unsupported("len of " + a.T.String()))
}

// append(s, xs...) : the result is either s extended in place (len+k <= cap) or a fresh array whose
// first len(s) elements are copied. Both cases are modelled.
func (fg *FnGen) appendOp(args []*Val, resT types.Type, pos token.Pos) *Val {
	s := args[0]
	st, ok := types.Unalias(resT).Underlying().(*types.Slice)
	if !ok {
		panic(unsupported("append result type"))
	}
	arr, off, n, cp := fg.sliceParts(s)
	var k Term
	var src *Val
	if len(args) > 1 {
		src = args[1]
		k = fg.lenOf(src)
	} else {
		k = IntLit(0)
	}
	inplace := Le(Add(n, k), cp)
	newArr := fg.newRef()
	rarr := fg.fresh("app.arr", SInt)
	roff := fg.fresh("app.off", SInt)
	rcap := fg.fresh("app.cap", SInt)
	// append(nil, nothing...) stays nil
	fg.assume(Ite(inplace, And(Eq(rarr, arr), Eq(roff, off), Eq(rcap, cp)),
		And(Eq(rarr, newArr), Eq(roff, IntLit(0)), Ge(rcap, Add(n, k)))))
	rlen := Add(n, k)
	// element content
	var srcArr, srcOff Term
	srcIsSlice := false
	if src != nil {
		if _, ok := types.Unalias(src.T).Underlying().(*types.Slice); ok {
			srcArr, srcOff = src.L[0], src.L[1]
			srcIsSlice = true
		}
	}
	for _, leaf := range layout(st.Elem()) {
		comp := "E:" + typeKey(st.Elem()) + leaf.Path
		a := fg.get(fg.cur, comp, ArrSort(ArrSort(leaf.Sort)))
		// the in-place write is a write to the caller-visible array when shared
		l := &Loc{Elem: true, Arr: rarr, Idx: Add(roff, n)}
		_ = l
		fresh := fg.fresh("app.elems", ArrSort(leaf.Sort))
		old := Select(a, arr)
		j := Term{"j!", SInt}
		// prefix preserved (absolute index j into the result array; patterns without arithmetic)
		pre := Implies(And(Le(roff, j), Lt(j, Add(roff, n))), Eq(Select(fresh, j), Select(old, Add(off, Sub(j, roff)))))
		fg.assume(Term{fmt.Sprintf("(forall ((j! Int)) (! %s :pattern (%s)))", pre.S, Select(fresh, j).S), SBool})
		// the same fact indexed by the position in the source array (so that a term about an old element finds its copy)
		preR := Implies(And(Le(off, j), Lt(j, Add(off, n))), Eq(Select(fresh, Add(roff, Sub(j, off))), Select(old, j)))
		fg.assume(Term{fmt.Sprintf("(forall ((j! Int)) (! %s :pattern (%s)))", preR.S, Select(old, j).S), SBool})
		// in-place: everything outside [off+n, off+n+k) unchanged
		inp := Implies(And(inplace, Or(Lt(j, Add(off, n)), Ge(j, Add(off, Add(n, k))))), Eq(Select(fresh, j), Select(old, j)))
		fg.assume(Term{fmt.Sprintf("(forall ((j! Int)) (! %s :pattern (%s)))", inp.S, Select(fresh, j).S), SBool})
		if srcIsSlice {
			srcInner := Select(a, srcArr)
			lo := Add(roff, n)
			ap := Implies(And(Le(lo, j), Lt(j, Add(lo, k))), Eq(Select(fresh, j), Select(srcInner, Add(srcOff, Sub(j, lo)))))
			fg.assume(Term{fmt.Sprintf("(forall ((j! Int)) (! %s :pattern (%s)))", ap.S, Select(fresh, j).S), SBool})
			apR := Implies(And(Le(srcOff, j), Lt(j, Add(srcOff, k))), Eq(Select(fresh, Add(lo, Sub(j, srcOff))), Select(srcInner, j)))
			fg.assume(Term{fmt.Sprintf("(forall ((j! Int)) (! %s :pattern (%s)))", apR.S, Select(srcInner, j).S), SBool})
		}
		if fg.pass == 2 && !fg.modAll {
			// in-place append writes into the backing array of s
			fg.obligeG("frame", comp, And(fg.curReach, inplace, Gt(k, IntLit(0))), Or(fg.frameAlts(comp, arr)...), pos, "in-place append writes outside the declared modifies set")
		}
		fg.set(comp, Store(a, rarr, fresh))
	}
	return &Val{T: resT, L: []Term{rarr, roff, rlen, rcap}}
}

func (fg *FnGen) frameAlts(comp string, arr Term) []Term {
	alts := []Term{Ge(arr, fg.allocEntry)}
	for _, w := range fg.W {
		if w.comp != comp {
			continue
		}
		if w.whole {
			return []Term{TTrue}
		}
		if w.elem {
			alts = append(alts, Eq(arr, w.arr))
		}
	}
	return alts
}

// ---------------------------------------------------------------------------------------
// maps

func mapComp(mt *types.Map) string {
	return "M:" + typeKey(mt.Key()) + "->" + typeKey(mt.Elem())
}

func (fg *FnGen) mapKey(k *Val) Term {
	if k.Loc == nil && len(k.L) == 1 {
		if k.L[0].Sort == SBool {
			return Ite(k.L[0], IntLit(1), IntLit(0))
		}
		return k.L[0]
	}
	if k.Loc != nil {
		panic(unsupported("interior pointer as map key"))
	}
	var sorts []Sort
	for _, l := range k.L {
		sorts = append(sorts, l.Sort)
	}
	f := fg.declareFun("mkkey_"+typeKey(k.T), sorts, SInt)
	return app(f, SInt, k.L...)
}

func (fg *FnGen) mapInit(ref Term, mt *types.Map) {
	mc := mapComp(mt)
	has := fg.get(fg.cur, mc+"!has", ArrSort(ArrSort(SBool)))
	fg.set(mc+"!has", Store(has, ref, Term{"((as const (Array Int Bool)) false)", ArrSort(SBool)}))
	ln := fg.get(fg.cur, mc+"!len", ArrSort(SInt))
	fg.set(mc+"!len", Store(ln, ref, IntLit(0)))
}

func (fg *FnGen) mapLen(st *State, m *Val, mt *types.Map) Term {
	mc := mapComp(mt)
	ln := fg.get(st, mc+"!len", ArrSort(SInt))
	r := Select(ln, m.one())
	fg.assume(And(Ge(r, IntLit(0)), Le(r, maxLenTerm))) // machine assumption: no map has more than 2^50 entries
	fg.assume(Implies(Eq(m.one(), IntLit(0)), Eq(r, IntLit(0))))
	return r
}

func (fg *FnGen) mapHas(st *State, m *Val, mt *types.Map, key Term) Term {
	mc := mapComp(mt)
	has := fg.get(st, mc+"!has", ArrSort(ArrSort(SBool)))
	return And(Not(Eq(m.one(), IntLit(0))), Select(Select(has, m.one()), key))
}

func (fg *FnGen) mapGet(st *State, m *Val, mt *types.Map, key Term) *Val {
	mc := mapComp(mt)
	v := &Val{T: mt.Elem()}
	for _, leaf := range layout(mt.Elem()) {
		a := fg.get(st, mc+"!val"+leaf.Path, ArrSort(ArrSort(leaf.Sort)))
		v.L = append(v.L, Select(Select(a, m.one()), key))
	}
	return v
}

func (fg *FnGen) lookup(x *ssa.Lookup) {
	xv := fg.val(x.X)
	mt, ok := types.Unalias(x.X.Type()).Underlying().(*types.Map)
	if !ok {
		// string index with comma-ok does not exist; Lookup on string = s[i]
		sid := xv.one()
		idx := fg.val(x.Index).one()
		if fg.safety("bounds") {
			fg.oblige("idx", exprName(x.X), And(Le(IntLit(0), idx), Lt(idx, fg.strLen(sid))), x.Pos(), "string index in range")
		}
		r := fg.strAt(sid, idx)
		fg.assume(And(Le(IntLit(0), r), Le(r, IntLit(255))))
		fg.bind(x, &Val{T: x.Type(), L: []Term{r}})
		return
	}
	key := fg.mapKey(fg.val(x.Index))
	has := fg.mapHas(fg.cur, xv, mt, key)
	got := fg.mapGet(fg.cur, xv, mt, key)
	z := fg.zeroVal(mt.Elem())
	r := &Val{T: x.Type()}
	for i := range got.L {
		r.L = append(r.L, Ite(has, got.L[i], z.L[i]))
	}
	if x.CommaOk {
		r.L = append(r.L, has)
	}
	fg.bind(x, r)
	nv := fg.vals[x]
	fg.assume(fg.valFacts(&Val{T: mt.Elem(), L: nv.L[:len(got.L)]}))
	fg.assume(fg.allocFacts(&Val{T: mt.Elem(), L: nv.L[:len(got.L)]}))
}

func (fg *FnGen) mapUpdate(x *ssa.MapUpdate) {
	m := fg.val(x.Map)
	mt := types.Unalias(x.Map.Type()).Underlying().(*types.Map)
	key := fg.mapKey(fg.val(x.Key))
	v := fg.val(x.Value)
	if fg.safety("nilmap") {
		fg.oblige("nilmap", exprName(x.Map), Not(Eq(m.one(), IntLit(0))), x.Pos(), "assignment to entry in nil map")
	}
	mc := mapComp(mt)
	ref := m.one()
	l := &Loc{Base: ref}
	hasA := fg.get(fg.cur, mc+"!has", ArrSort(ArrSort(SBool)))
	had := Select(Select(hasA, ref), key)
	fg.frameCheck(mc+"!has", l, x.Pos())
	fg.set(mc+"!has", Store(hasA, ref, Store(Select(hasA, ref), key, TTrue)))
	lnA := fg.get(fg.cur, mc+"!len", ArrSort(SInt))
	fg.set(mc+"!len", Store(lnA, ref, Add(Select(lnA, ref), Ite(had, IntLit(0), IntLit(1)))))
	for i, leaf := range layout(mt.Elem()) {
		comp := mc + "!val" + leaf.Path
		a := fg.get(fg.cur, comp, ArrSort(ArrSort(leaf.Sort)))
		fg.set(comp, Store(a, ref, Store(Select(a, ref), key, v.L[i])))
	}
}

func (fg *FnGen) mapDelete(m, k *Val, pos token.Pos) {
	mt := types.Unalias(m.T).Underlying().(*types.Map)
	key := fg.mapKey(k)
	mc := mapComp(mt)
	ref := m.one()
	hasA := fg.get(fg.cur, mc+"!has", ArrSort(ArrSort(SBool)))
	had := And(Not(Eq(ref, IntLit(0))), Select(Select(hasA, ref), key))
	l := &Loc{Base: ref}
	fg.frameCheck(mc+"!has", l, pos)
	// delete on a nil map is a no-op
	fg.set(mc+"!has", Ite(Eq(ref, IntLit(0)), hasA, Store(hasA, ref, Store(Select(hasA, ref), key, TFalse))))
	lnA := fg.get(fg.cur, mc+"!len", ArrSort(SInt))
	fg.set(mc+"!len", Store(lnA, ref, Sub(Select(lnA, ref), Ite(had, IntLit(1), IntLit(0)))))
}

func (fg *FnGen) mapClear(m *Val, mt *types.Map, pos token.Pos) {
	mc := mapComp(mt)
	ref := m.one()
	hasA := fg.get(fg.cur, mc+"!has", ArrSort(ArrSort(SBool)))
	fg.frameCheck(mc+"!has", &Loc{Base: ref}, pos)
	fg.set(mc+"!has", Store(hasA, ref, Term{"((as const (Array Int Bool)) false)", ArrSort(SBool)}))
	lnA := fg.get(fg.cur, mc+"!len", ArrSort(SInt))
	fg.set(mc+"!len", Store(lnA, ref, IntLit(0)))
}

// range over map / string: Next yields an arbitrary element (order and multiplicity are not modelled,
// so nothing that depends on iteration order can be proved — which is the point for C09).
func (fg *FnGen) rangeInstr(x *ssa.Range) {
	it := &rangeIter{x: fg.val(x.X), T: x.X.Type()}
	fg.rangeIters[x] = it
	fg.vals[x] = &Val{T: x.Type(), L: []Term{fg.fresh("iter", SInt)}}
	if _, ok := types.Unalias(x.X.Type()).Underlying().(*types.Map); ok {
		// ghost set of the keys produced so far: every entry present when the iteration starts and not removed
		// meanwhile is produced exactly once (Go spec); contracts name it visited(n, k), n = ordinal of the
		// range-over-map statement in the function
		it.comp = fg.mapRangeComp(x)
		fg.compSort(it.comp, ArrSort(SBool))
		fg.set(it.comp, Term{"((as const (Array Int Bool)) false)", ArrSort(SBool)})
	}
}

// mapRangeComp: ghost component of the visited set of a range-over-map statement.
func (fg *FnGen) mapRangeComp(x *ssa.Range) string {
	n := 0
	for _, b := range fg.fn.Blocks {
		for _, ins := range b.Instrs {
			if r, ok := ins.(*ssa.Range); ok {
				if _, isMap := types.Unalias(r.X.Type()).Underlying().(*types.Map); isMap {
					if r == x {
						return fmt.Sprintf("ghost:$vis!%d", n)
					}
					n++
				}
			}
		}
	}
	return "ghost:$vis!?"
}

func (fg *FnGen) nextInstr(x *ssa.Next) {
	it := fg.rangeIters[x.Iter]
	ok := fg.fresh("next.ok", SBool)
	tp := x.Type().(*types.Tuple)
	r := &Val{T: x.Type(), L: []Term{ok}}
	if it == nil {
		panic(unsupported("Next on unknown iterator"))
	}
	if x.IsString {
		idx := fg.fresh("next.idx", SInt)
		rn := fg.fresh("next.rune", SInt)
		fg.assume(Implies(ok, And(Le(IntLit(0), idx), Lt(idx, fg.strLen(it.x.one())))))
		fg.assume(And(Le(IntLit(0), rn), Le(rn, IntLit(0x10FFFF))))
		r.L = append(r.L, idx, rn)
		fg.bind(x, r)
		return
	}
	mt := types.Unalias(it.T).Underlying().(*types.Map)
	kv := fg.freshVal(tp.At(1).Type(), "next.key")
	fg.assume(fg.valFacts(kv))
	fg.assume(fg.allocFacts(kv))
	key := fg.mapKey(kv)
	fg.assume(Implies(ok, fg.mapHas(fg.cur, it.x, mt, key)))
	fg.assume(Implies(ok, Gt(fg.mapLen(fg.cur, it.x, mt), IntLit(0))))
	if it.comp != "" {
		vis := fg.get(fg.cur, it.comp, ArrSort(SBool))
		// a key is produced at most once
		fg.assume(Implies(ok, Not(Select(vis, key))))
		// when the iteration ends every entry has been produced - provided the loop does not update maps of this
		// type (removed/added entries may be skipped)
		mc := mapComp(mt)
		unmodified := true
		if li := fg.loops[x.Block().Index]; li != nil && fg.pass == 2 {
			mods := fg.loopMods[x.Block().Index]
			if mods[mc+"!has"] || (mods["$all"] && !fg.g.isStableComp(mc+"!has")) {
				unmodified = false
			}
		} else {
			unmodified = false
		}
		if unmodified {
			has := fg.get(fg.cur, mc+"!has", ArrSort(ArrSort(SBool)))
			fg.nfresh++
			q := sym(fmt.Sprintf("q_vis!%d", fg.nfresh))
			all := fmt.Sprintf("(forall ((%s Int)) (=> (select (select %s %s) %s) (select %s %s)))", q, has.S, it.x.one().S, q, vis.S, q)
			fg.assume(Implies(Not(ok), Term{all, SBool}))
		}
		fg.set(it.comp, Ite(ok, Store(vis, key, TTrue), vis))
	}
	vv := fg.mapGet(fg.cur, it.x, mt, key)
	r.L = append(r.L, kv.L...)
	if _, isInvalid := tp.At(2).Type().(*types.Basic); isInvalid && tp.At(2).Type().(*types.Basic).Kind() == types.Invalid {
		// value unused
		for range layout(tp.At(2).Type()) {
			r.L = append(r.L, IntLit(0))
		}
	} else {
		r.L = append(r.L, vv.L...)
	}
	fg.bind(x, r)
	nv := fg.vals[x]
	if len(nv.L) == 1+len(kv.L)+len(vv.L) {
		vals := &Val{T: mt.Elem(), L: nv.L[1+len(kv.L):]}
		fg.assume(fg.valFacts(vals))
		fg.assume(fg.allocFacts(vals))
	}
}
