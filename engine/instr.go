package main

import (
	"strings"
	"fmt"
	"go/token"
	"go/types"
	"math/big"

	"golang.org/x/tools/go/ssa"
)

func (fg *FnGen) instr(ins ssa.Instruction) {
	switch x := ins.(type) {
	case *ssa.DebugRef:
		return
	case *ssa.Alloc:
		fg.alloc(x)
	case *ssa.FieldAddr:
		base := fg.val(x.X)
		l := fg.deref(base, x.Pos(), "field."+fieldName(x))
		st := types.Unalias(l.T).Underlying().(*types.Struct)
		f := st.Field(x.Field)
		nl := *l
		nl.Prefix = l.Prefix + "." + f.Name()
		nl.T = f.Type()
		fg.vals[x] = &Val{T: x.Type(), Loc: &nl}
	case *ssa.Field:
		sv := fg.val(x.X)
		st := types.Unalias(sv.T).Underlying().(*types.Struct)
		lo, hi := fieldRange(st, x.Field)
		fg.bind(x, &Val{T: x.Type(), L: sv.L[lo:hi]})
	case *ssa.IndexAddr:
		fg.indexAddr(x)
	case *ssa.Index:
		fg.index(x)
	case *ssa.UnOp:
		fg.unop(x)
	case *ssa.BinOp:
		fg.bind(x, fg.binop(x.Op, fg.val(x.X), fg.val(x.Y), x.Type(), x.Pos()))
	case *ssa.Store:
		addr := fg.val(x.Addr)
		l := fg.deref(addr, x.Pos(), "store")
		v := fg.val(x.Val)
		if v.Loc != nil {
			panic(unsupported("interior pointer stored to memory"))
		}
		fg.store(l, v, x.Pos())
	case *ssa.Convert:
		fg.bind(x, fg.convert(fg.val(x.X), x.Type(), x.Pos()))
	case *ssa.ChangeType:
		v := fg.val(x.X)
		if v.Loc != nil {
			fg.vals[x] = &Val{T: x.Type(), Loc: v.Loc}
		} else {
			fg.bind(x, &Val{T: x.Type(), L: v.L})
		}
	case *ssa.ChangeInterface:
		v := fg.val(x.X)
		fg.bind(x, &Val{T: x.Type(), L: v.L})
	case *ssa.MakeInterface:
		v := fg.val(x.X)
		tag := IntLit(int64(fg.g.typeID(x.X.Type())))
		var payload Term
		if v.Loc == nil && len(v.L) == 1 && v.L[0].Sort == SInt {
			payload = v.L[0]
		} else if v.Loc == nil && len(v.L) == 1 && v.L[0].Sort == SBool {
			payload = Ite(v.L[0], IntLit(1), IntLit(0))
		} else {
			payload = fg.fresh("box", SInt)
		}
		fg.bind(x, &Val{T: x.Type(), L: []Term{tag, payload}})
	case *ssa.TypeAssert:
		fg.typeAssert(x)
	case *ssa.Extract:
		tv := fg.val(x.Tuple)
		tp := x.Tuple.Type().(*types.Tuple)
		lo, hi := tupleRange(tp, x.Index)
		fg.bind(x, &Val{T: x.Type(), L: tv.L[lo:hi]})
	case *ssa.Slice:
		fg.slice(x)
	case *ssa.MakeSlice:
		n := fg.val(x.Len).one()
		cp := fg.val(x.Cap).one()
		if fg.safety("bounds") {
			fg.oblige("makeslice", "len", And(Ge(n, IntLit(0)), Le(n, cp)), x.Pos(), "make([]T, len, cap) with 0 <= len <= cap")
		}
		ref := fg.newRef()
		// zero-initialised elements
		et := x.Type().Underlying().(*types.Slice).Elem()
		fg.zeroElems(ref, et)
		fg.bind(x, &Val{T: x.Type(), L: []Term{ref, IntLit(0), n, cp}})
	case *ssa.MakeMap:
		ref := fg.newRef()
		mt := x.Type().Underlying().(*types.Map)
		fg.mapInit(ref, mt)
		fg.bind(x, &Val{T: x.Type(), L: []Term{ref}})
	case *ssa.MakeChan:
		ref := fg.newRef()
		fg.bind(x, &Val{T: x.Type(), L: []Term{ref}})
	case *ssa.MapUpdate:
		fg.mapUpdate(x)
	case *ssa.Lookup:
		fg.lookup(x)
	case *ssa.Range:
		fg.rangeInstr(x)
	case *ssa.Next:
		fg.nextInstr(x)
	case *ssa.MakeClosure:
		fg.closures[x] = x
		c := fg.fresh("closure", SInt)
		fg.assume(Not(Eq(c, IntLit(0)))) // a function literal is never nil
		fg.bind(x, &Val{T: x.Type(), L: []Term{c}})
		if !closureOnlyCalledHere(x) {
			for _, b := range x.Bindings {
				if al, ok := b.(*ssa.Alloc); ok {
					if bv, ok := fg.vals[al]; ok && len(bv.L) == 1 {
						if pfx, ok := fg.privateRefs[bv.L[0].S]; ok {
							if esc, ok := fg.semiPriv[pfx]; ok {
								fg.set(esc, TTrue)
							}
						}
					}
				}
			}
		}
	case *ssa.Call:
		r := fg.call(x, &x.Call)
		if r != nil {
			if r.Loc != nil {
				fg.vals[x] = r
			} else {
				fg.bind(x, r)
			}
		} else {
			fg.vals[x] = fg.freshVal(x.Type(), x.Name())
		}
	case *ssa.Go:
		fg.goCall(x)
	case *ssa.Defer:
		d := &deferred{instr: x, guard: fg.curReach}
		for _, a := range x.Call.Args {
			d.args = append(d.args, fg.val(a))
		}
		if x.Call.IsInvoke() || x.Call.StaticCallee() == nil {
			d.args = append([]*Val{fg.val(x.Call.Value)}, d.args...)
		}
		fg.cur.defers = append(fg.cur.defers, d)
	case *ssa.RunDefers:
		fg.runDefers()
	case *ssa.Send:
		fg.send(x)
	case *ssa.Select:
		fg.selectInstr(x)
	case *ssa.SliceToArrayPointer, *ssa.MultiConvert:
		fg.vals[x.(ssa.Value)] = fg.freshVal(x.(ssa.Value).Type(), "conv")
	case *ssa.If:
		c := fg.val(x.Cond).one()
		b := fg.curBlock
		fg.edge(b, b.Succs[0], And(fg.curReach, c))
		fg.edge(b, b.Succs[1], And(fg.curReach, Not(c)))
	case *ssa.Jump:
		b := fg.curBlock
		fg.edge(b, b.Succs[0], fg.curReach)
	case *ssa.Return:
		fg.ret(x)
	case *ssa.Panic:
		fg.panicInstr(x)
	default:
		panic(unsupported(fmt.Sprintf("instruction %T", ins)))
	}
}

func fieldName(x *ssa.FieldAddr) string {
	T := derefType(x.X.Type())
	if T == nil {
		return fmt.Sprint(x.Field)
	}
	if st, ok := types.Unalias(T).Underlying().(*types.Struct); ok {
		return st.Field(x.Field).Name()
	}
	return fmt.Sprint(x.Field)
}

func (fg *FnGen) edge(from, to *ssa.BasicBlock, cond Term) {
	key := [2]int{from.Index, to.Index}
	e := fg.declare(fmt.Sprintf("edge!%d!%d", from.Index, to.Index), SBool)
	if prev, ok := fg.edges[key]; ok {
		// both branches of an If go to the same block
		_ = prev
		fg.asserts = fg.asserts[:len(fg.asserts)] // keep
		e2 := fg.declare(fmt.Sprintf("edge!%d!%d!b", from.Index, to.Index), SBool)
		fg.assertRaw(Eq(e2, Or(prev, cond)))
		fg.edges[key] = e2
		e = e2
	} else {
		fg.assertRaw(Eq(e, cond))
		fg.edges[key] = e
	}
	if to.Dominates(from) && fg.loops[to.Index] != nil {
		// back edge: invariant must be re-established, measure must decrease
		li := fg.loops[to.Index]
		fg.checkInvariant(li, fg.cur, from, e, "preserved")
	}
}

func (fg *FnGen) newRef() Term {
	a := fg.allocCur()
	ref := fg.fresh("ref", SInt)
	fg.assertRaw(Eq(ref, a))
	fg.set("$alloc", Add(a, IntLit(1)))
	// a mutex inside an object that did not exist is not held by anybody
	for _, comp := range fg.compOrder {
		if strings.HasPrefix(comp, "held:") || strings.HasPrefix(comp, "rheld:") {
			if fg.compSorts[comp] == ArrSort(SBool) {
				fg.assume(Not(Select(fg.get(fg.cur, comp, ArrSort(SBool)), ref)))
			}
		}
	}
	return ref
}

func (fg *FnGen) alloc(x *ssa.Alloc) {
	T := derefType(x.Type())
	ref := fg.newRef()
	fg.localAllocs = append(fg.localAllocs, ref)
	if _, isArr := types.Unalias(T).Underlying().(*types.Array); isArr {
		et := types.Unalias(T).Underlying().(*types.Array).Elem()
		fg.zeroElems(ref, et)
		fg.bind(x, &Val{T: x.Type(), L: []Term{ref}})
		return
	}
	// zero-initialise
	prefix := typeKey(T)
	if !fg.isPrivateAlloc(x) && fg.isSemiPrivateAlloc(x) {
		// a captured variable whose address flows only into closures: nobody else can reach it before a closure
		// binding it has been created and handed out. It lives in its own components; a ghost flag records the
		// escape, and havocs of everything apply to it only once the flag is set.
		prefix = "local!" + fg.fn.Name() + "!" + x.Name() + "!" + typeKey(T)
		fg.bind(x, &Val{T: x.Type(), L: []Term{ref}})
		fg.privateRefs[fg.vals[x].L[0].S] = prefix
		esc := "ghost:$esc!" + x.Name()
		fg.compSort(esc, SBool)
		fg.set(esc, TFalse)
		fg.semiPriv[prefix] = esc
	} else if fg.isPrivateAlloc(x) {
		// a local whose address never leaves this function (except into closures that are only called or
		// deferred here): callees cannot reach it, so it lives in its own components
		prefix = "local!" + fg.fn.Name() + "!" + x.Name() + "!" + typeKey(T)
		fg.bind(x, &Val{T: x.Type(), L: []Term{ref}})
		fg.privateRefs[fg.vals[x].L[0].S] = prefix
	}
	l := &Loc{Prefix: prefix, Base: ref, T: T}
	z := fg.zeroVal(T)
	ls := layout(T)
	for i, leaf := range ls {
		comp := fg.compName(l, leaf)
		a := fg.get(fg.cur, comp, ArrSort(leaf.Sort))
		fg.set(comp, Store(a, ref, z.L[i]))
	}
	fg.bind(x, &Val{T: x.Type(), L: []Term{ref}})
}

func (fg *FnGen) zeroElems(ref Term, et types.Type) {
	z := fg.zeroVal(et)
	for i, leaf := range layout(et) {
		comp := "E:" + typeKey(et) + leaf.Path
		a := fg.get(fg.cur, comp, ArrSort(ArrSort(leaf.Sort)))
		konst := Term{fmt.Sprintf("((as const %s) %s)", ArrSort(leaf.Sort), z.L[i].S), ArrSort(leaf.Sort)}
		fg.set(comp, Store(a, ref, konst))
	}
}

func (fg *FnGen) sliceParts(v *Val) (arr, off, n, cp Term) {
	if v.Loc != nil || len(v.L) != 4 {
		panic(unsupported("slice value expected, got " + v.T.String()))
	}
	return v.L[0], v.L[1], v.L[2], v.L[3]
}

func (fg *FnGen) indexAddr(x *ssa.IndexAddr) {
	xv := fg.val(x.X)
	idx := fg.val(x.Index).one()
	switch t := types.Unalias(x.X.Type()).Underlying().(type) {
	case *types.Slice:
		arr, off, n, _ := fg.sliceParts(xv)
		if fg.safety("bounds") {
			fg.oblige("idx", exprName(x.X), And(Le(IntLit(0), idx), Lt(idx, n)), x.Pos(), "slice index in range")
		}
		fg.vals[x] = &Val{T: x.Type(), Loc: &Loc{Elem: true, Prefix: typeKey(t.Elem()), Arr: arr, Idx: Add(off, idx), T: t.Elem()}}
	case *types.Pointer:
		at := types.Unalias(t.Elem()).Underlying().(*types.Array)
		var arr Term
		if xv.Loc != nil {
			// array embedded in a struct: the array reference is the leaf stored in the field
			arr = fg.load(xv.Loc).one()
			fg.note("array field treated as reference to element storage")
		} else {
			arr = xv.one()
		}
		if fg.safety("bounds") {
			fg.oblige("idx", exprName(x.X), And(Le(IntLit(0), idx), Lt(idx, IntLit(at.Len()))), x.Pos(), "array index in range")
		}
		fg.vals[x] = &Val{T: x.Type(), Loc: &Loc{Elem: true, Prefix: typeKey(at.Elem()), Arr: arr, Idx: idx, T: at.Elem()}}
	default:
		panic(unsupported("IndexAddr on " + x.X.Type().String()))
	}
}

func (fg *FnGen) index(x *ssa.Index) {
	xv := fg.val(x.X)
	idx := fg.val(x.Index).one()
	switch t := types.Unalias(x.X.Type()).Underlying().(type) {
	case *types.Basic: // string
		sid := xv.one()
		if fg.safety("bounds") {
			fg.oblige("idx", exprName(x.X), And(Le(IntLit(0), idx), Lt(idx, fg.strLen(sid))), x.Pos(), "string index in range")
		}
		r := fg.strAt(sid, idx)
		fg.assume(And(Le(IntLit(0), r), Le(r, IntLit(255))))
		fg.bind(x, &Val{T: x.Type(), L: []Term{r}})
	case *types.Array:
		arr := xv.one()
		if fg.safety("bounds") {
			fg.oblige("idx", exprName(x.X), And(Le(IntLit(0), idx), Lt(idx, IntLit(t.Len()))), x.Pos(), "array index in range")
		}
		l := &Loc{Elem: true, Prefix: typeKey(t.Elem()), Arr: arr, Idx: idx, T: t.Elem()}
		fg.bind(x, fg.load(l))
	default:
		panic(unsupported("Index on " + x.X.Type().String()))
	}
}

func exprName(v ssa.Value) string {
	switch x := v.(type) {
	case *ssa.Parameter:
		return x.Name()
	case *ssa.UnOp:
		if x.Op == token.MUL {
			return exprName(x.X)
		}
	case *ssa.FieldAddr:
		return fieldName(x)
	case *ssa.Phi:
		if x.Comment != "" {
			return x.Comment
		}
	case *ssa.Slice:
		return exprName(x.X)
	case *ssa.IndexAddr:
		return exprName(x.X)
	case *ssa.Field:
		if st, ok := types.Unalias(x.X.Type()).Underlying().(*types.Struct); ok {
			return st.Field(x.Field).Name()
		}
	case *ssa.Extract:
		return exprName(x.Tuple)
	case *ssa.Alloc:
		if x.Comment != "" {
			return x.Comment
		}
	case *ssa.FreeVar:
		return x.Name()
	case *ssa.Call:
		return "result"
	}
	return "expr"
}

// dynCalleeName: the source-level name of a called function value (local variable, field, parameter)
func (fg *FnGen) dynCalleeName(v ssa.Value) string {
	n := exprName(v)
	if n != "expr" && n != "result" {
		return n
	}
	for name, bs := range fg.debugNames {
		for _, b := range bs {
			if b.v == v && !b.addr {
				return name
			}
		}
	}
	return n
}

func (fg *FnGen) unop(x *ssa.UnOp) {
	switch x.Op {
	case token.MUL:
		p := fg.val(x.X)
		l := fg.deref(p, x.Pos(), "load")
		v := fg.load(l)
		fg.bind(x, v)
		nv := fg.vals[x]
		fg.assume(fg.valFacts(nv))
		fg.assume(fg.allocFacts(nv))
		// a reference read from an object that existed at entry, out of a component that has not changed since
		// entry, existed at entry
		if l != nil && !l.Elem && len(nv.L) == len(layout(l.T)) {
			for i, leaf := range layout(l.T) {
				comp := fg.compName(l, leaf)
				cv, ok1 := fg.cur.ver[comp]
				ev, ok2 := fg.entry.ver[comp]
				if !ok1 || !ok2 || cv.S != ev.S || leaf.Sort != SInt {
					continue
				}
				isRef := leaf.Role == "arr"
				if leaf.T != nil {
					switch types.Unalias(leaf.T).Underlying().(type) {
					case *types.Pointer, *types.Map, *types.Chan:
						isRef = true
					}
				}
				if isRef {
					// only for objects that existed at entry: a callee declared `fresh` allocates and initialises
					// objects without re-versioning the caller's components
					fg.assume(Implies(Lt(l.Base, fg.allocEntry), Lt(nv.L[i], fg.allocEntry)))
				}
			}
		}
		fg.guardedLoad(l, x)
	case token.NOT:
		fg.bind(x, &Val{T: x.Type(), L: []Term{Not(fg.val(x.X).one())}})
	case token.SUB:
		v := fg.val(x.X).one()
		if isFloatType(x.Type()) {
			fg.bind(x, fg.freshVal(x.Type(), "fneg"))
			return
		}
		r := app("-", SInt, v)
		fg.bind(x, &Val{T: x.Type(), L: []Term{fg.wrap(r, x.Type(), "neg", x.Pos())}})
	case token.XOR:
		v := fg.val(x.X).one()
		// ^x == -x-1 for signed; for unsigned max-x
		if lo, hi, ok := intRange(x.Type()); ok && lo.Sign() == 0 {
			fg.bind(x, &Val{T: x.Type(), L: []Term{Sub(BigLit(hi.String()), v)}})
		} else {
			fg.bind(x, &Val{T: x.Type(), L: []Term{Sub(app("-", SInt, v), IntLit(1))}})
		}
	case token.ARROW:
		fg.recv(x)
	default:
		panic(unsupported("unary op " + x.Op.String()))
	}
}

// wrap applies Go's fixed-width semantics to a mathematical result. In "arith checked" mode an
// overflow obligation is generated instead (and the result is then the mathematical one).
func (fg *FnGen) wrap(r Term, T types.Type, op string, pos token.Pos) Term {
	lo, hi, ok := intRange(T)
	if !ok {
		return r
	}
	c := fg.fresh("ar", SInt)
	fg.assertRaw(Eq(c, r))
	if fg.c != nil && fg.c.Arith == "checked" {
		fg.oblige("ovf", op, And(Le(BigLit(lo.String()), c), Le(c, BigLit(hi.String()))), pos, "no integer overflow/underflow in "+op)
		return c
	}
	// exact wrap-around: one modulus step is enough for + and -, use mod for the general case
	mod := new(big.Int).Add(new(big.Int).Sub(hi, lo), big.NewInt(1))
	if op == "add" || op == "sub" || op == "neg" {
		return Ite(Gt(c, BigLit(hi.String())), Sub(c, BigLit(mod.String())),
			Ite(Lt(c, BigLit(lo.String())), Add(c, BigLit(mod.String())), c))
	}
	// general: ((c - lo) mod M) + lo
	return Add(app("mod", SInt, Sub(c, BigLit(lo.String())), BigLit(mod.String())), BigLit(lo.String()))
}

func (fg *FnGen) binop(op token.Token, a, b *Val, T types.Type, pos token.Pos) *Val {
	mk := func(t Term) *Val { return &Val{T: T, L: []Term{t}} }
	// comparisons
	switch op {
	case token.EQL, token.NEQ:
		eq := fg.valEq(a, b)
		if op == token.NEQ {
			eq = Not(eq)
		}
		return mk(eq)
	}
	if isFloatType(a.T) || isFloatType(T) {
		if isBoolType(T) {
			return mk(fg.fresh("fcmp", SBool))
		}
		return fg.freshVal(T, "fop")
	}
	if isStringType(a.T) {
		switch op {
		case token.ADD:
			f := fg.declareFun("str_cat", []Sort{SInt, SInt}, SInt)
			r := app(f, SInt, a.one(), b.one())
			fg.assume(Eq(fg.strLen(r), Add(fg.strLen(a.one()), fg.strLen(b.one()))))
			return mk(r)
		case token.LSS, token.LEQ, token.GTR, token.GEQ:
			f := fg.declareFun("str_cmp_"+op.String(), []Sort{SInt, SInt}, SBool)
			return mk(app(f, SBool, a.one(), b.one()))
		}
	}
	x, y := a.one(), b.one()
	if x.Sort == SBool {
		switch op {
		case token.AND, token.LAND:
			return mk(And(x, y))
		case token.OR, token.LOR:
			return mk(Or(x, y))
		}
		panic(unsupported("bool op " + op.String()))
	}
	switch op {
	case token.LSS:
		return mk(Lt(x, y))
	case token.LEQ:
		return mk(Le(x, y))
	case token.GTR:
		return mk(Gt(x, y))
	case token.GEQ:
		return mk(Ge(x, y))
	case token.ADD:
		return mk(fg.wrap(Add(x, y), T, "add", pos))
	case token.SUB:
		return mk(fg.wrap(Sub(x, y), T, "sub", pos))
	case token.MUL:
		return mk(fg.wrap(Mul(x, y), T, "mul", pos))
	case token.QUO:
		if fg.safety("div") {
			fg.oblige("div", "zero", Not(Eq(y, IntLit(0))), pos, "division by zero")
		}
		// Go truncates toward zero; SMT div floors (for positive divisor). Encode truncation.
		q := Ite(Ge(x, IntLit(0)),
			Ite(Gt(y, IntLit(0)), app("div", SInt, x, y), app("-", SInt, app("div", SInt, x, app("-", SInt, y)))),
			Ite(Gt(y, IntLit(0)), app("-", SInt, app("div", SInt, app("-", SInt, x), y)), app("div", SInt, app("-", SInt, x), app("-", SInt, y))))
		return mk(fg.wrap(q, T, "quo", pos))
	case token.REM:
		if fg.safety("div") {
			fg.oblige("div", "zero", Not(Eq(y, IntLit(0))), pos, "division by zero")
		}
		ay := Ite(Ge(y, IntLit(0)), y, app("-", SInt, y))
		r := Ite(Ge(x, IntLit(0)), app("mod", SInt, x, ay), app("-", SInt, app("mod", SInt, app("-", SInt, x), ay)))
		return mk(r)
	case token.SHL, token.SHR, token.AND, token.OR, token.XOR, token.AND_NOT:
		return mk(fg.bitop(op, x, y, T, b))
	}
	panic(unsupported("binary op " + op.String()))
}

// bitop: bit-level operators. Constant shifts and masks are modelled exactly; the rest is an
// uninterpreted function with range facts.
func (fg *FnGen) bitop(op token.Token, x, y Term, T types.Type, yv *Val) Term {
	lo, hi, ok := intRange(T)
	isConst := func(t Term) (int64, bool) {
		var n int64
		if _, err := fmt.Sscanf(t.S, "%d", &n); err == nil && fmt.Sprint(n) == t.S {
			return n, true
		}
		return 0, false
	}
	if n, c := isConst(y); c && n >= 0 && n < 63 {
		p := new(big.Int).Lsh(big.NewInt(1), uint(n))
		switch op {
		case token.SHL:
			return fg.wrap(Mul(x, BigLit(p.String())), T, "shl", token.NoPos)
		case token.SHR:
			return app("div", SInt, x, BigLit(p.String())) // floor division = arithmetic shift
		case token.AND:
			// x & (2^k - 1)
			q := new(big.Int).Add(big.NewInt(n), big.NewInt(1))
			if q.BitLen() > 0 && new(big.Int).And(q, big.NewInt(n)).Sign() == 0 && ok && lo.Sign() == 0 {
				return app("mod", SInt, x, BigLit(q.String()))
			}
		}
	}
	f := fg.declareFun("bit_"+op.String()+"_"+typeKey(T), []Sort{SInt, SInt}, SInt)
	r := app(f, SInt, x, y)
	if ok {
		fg.assume(And(Le(BigLit(lo.String()), r), Le(r, BigLit(hi.String()))))
		if lo.Sign() == 0 {
			switch op {
			case token.AND:
				fg.assume(And(Le(r, x), Le(r, y)))
			case token.OR:
				fg.assume(And(Ge(r, x), Ge(r, y)))
			case token.SHR:
				fg.assume(Le(r, x))
			}
		}
	}
	return r
}

func (fg *FnGen) valEq(a, b *Val) Term {
	if a.Loc != nil || b.Loc != nil {
		panic(unsupported("comparison of interior pointers"))
	}
	if isFloatType(a.T) {
		return fg.fresh("feq", SBool)
	}
	if _, ok := types.Unalias(a.T).Underlying().(*types.Interface); ok {
		if len(b.L) == 2 {
			// tag 0 is the nil interface whatever the payload
			return And(Eq(a.L[0], b.L[0]), Or(Eq(a.L[0], IntLit(0)), Eq(a.L[1], b.L[1])))
		}
	}
	if _, ok := types.Unalias(a.T).Underlying().(*types.Slice); ok {
		// only comparison with nil is legal
		return Eq(a.L[0], IntLit(0))
	}
	if isStringType(a.T) && len(a.L) == 1 && len(b.L) == 1 {
		// s == "" is a length test (the empty string is the only string of length 0)
		e := fg.strLitTerm("")
		if b.L[0].S == e.S {
			return Eq(fg.strLen(a.L[0]), IntLit(0))
		}
		if a.L[0].S == e.S {
			return Eq(fg.strLen(b.L[0]), IntLit(0))
		}
	}
	if len(a.L) != len(b.L) {
		panic(unsupported("comparison of differently shaped values"))
	}
	var es []Term
	for i := range a.L {
		es = append(es, Eq(a.L[i], b.L[i]))
	}
	return And(es...)
}

func (fg *FnGen) convert(v *Val, T types.Type, pos token.Pos) *Val {
	from := v.T
	switch {
	case isIntType(from) && isIntType(T):
		x := v.one()
		lo, hi, ok := intRange(T)
		flo, fhi, fok := intRange(from)
		if !ok || (fok && flo.Cmp(lo) >= 0 && fhi.Cmp(hi) <= 0) {
			return &Val{T: T, L: []Term{x}}
		}
		if fg.c != nil && fg.c.Arith == "checked" {
			fg.oblige("ovf", "conv", And(Le(BigLit(lo.String()), x), Le(x, BigLit(hi.String()))), pos, "narrowing conversion keeps the value")
			return &Val{T: T, L: []Term{x}}
		}
		mod := new(big.Int).Add(new(big.Int).Sub(hi, lo), big.NewInt(1))
		r := Add(app("mod", SInt, Sub(x, BigLit(lo.String())), BigLit(mod.String())), BigLit(lo.String()))
		return &Val{T: T, L: []Term{r}}
	case isStringType(from) && isStringType(T):
		return &Val{T: T, L: v.L}
	case isStringType(T):
		// []byte / rune -> string
		if _, ok := types.Unalias(from).Underlying().(*types.Slice); ok {
			arr, off, n, _ := fg.sliceParts(v)
			// the string is a function of the bytes converted: converting the same unchanged bytes twice gives the
			// same string (no extensionality: equal content at different places may still give different ids)
			e := fg.get(fg.cur, "E:byte", ArrSort(ArrSort(SInt)))
			f := fg.declareFun("str_of", []Sort{ArrSort(SInt), SInt, SInt}, SInt)
			sid := fg.fresh("str", SInt)
			fg.assertRaw(Eq(sid, app(f, SInt, Select(e, arr), off, n)))
			fg.assume(Eq(fg.strLen(sid), n))
			// no assumption on the id itself: a converted string can be equal to a literal (equal ids have equal length
			// and content by congruence, so strings of different content are still different)
			// content
			k := Term{"k!", SInt}
			body := Implies(And(Le(IntLit(0), k), Lt(k, n)), Eq(fg.strAt(sid, k), Select(Select(e, arr), Add(off, k))))
			fg.assume(Term{fmt.Sprintf("(forall ((k! Int)) (! %s :pattern (%s)))", body.S, fg.strAt(sid, k).S), SBool})
			return &Val{T: T, L: []Term{sid}}
		}
		return fg.freshVal(T, "str")
	case isStringType(from):
		if st, ok := types.Unalias(T).Underlying().(*types.Slice); ok {
			ref := fg.newRef()
			n := fg.strLen(v.one())
			if b, ok := st.Elem().Underlying().(*types.Basic); ok && b.Kind() == types.Byte {
				e := fg.get(fg.cur, "E:byte", ArrSort(ArrSort(SInt)))
				inner := fg.fresh("bytes", ArrSort(SInt))
				k := Term{"k!", SInt}
				body := Implies(And(Le(IntLit(0), k), Lt(k, n)), Eq(Select(inner, k), fg.strAt(v.one(), k)))
				fg.assume(Term{fmt.Sprintf("(forall ((k! Int)) (! %s :pattern (%s)))", body.S, Select(inner, k).S), SBool})
				fg.set("E:byte", Store(e, ref, inner))
				return &Val{T: T, L: []Term{ref, IntLit(0), n, n}}
			}
			ln := fg.fresh("runes.len", SInt)
			fg.assume(And(Ge(ln, IntLit(0)), Le(ln, n)))
			return &Val{T: T, L: []Term{ref, IntLit(0), ln, ln}}
		}
	case isFloatType(from) || isFloatType(T):
		r := fg.freshVal(T, "fconv")
		fg.assume(fg.valFacts(r))
		return r
	}
	if len(layout(from)) == len(layout(T)) {
		if v.Loc != nil {
			return &Val{T: T, Loc: v.Loc}
		}
		return &Val{T: T, L: v.L}
	}
	panic(unsupported(fmt.Sprintf("conversion %s -> %s", from, T)))
}

func (fg *FnGen) typeAssert(x *ssa.TypeAssert) {
	v := fg.val(x.X)
	tag, payload := v.L[0], v.L[1]
	var ok Term
	var res *Val
	if _, isIface := types.Unalias(x.AssertedType).Underlying().(*types.Interface); isIface {
		okc := fg.fresh("implements", SBool)
		ok = And(Not(Eq(tag, IntLit(0))), okc)
		res = &Val{T: x.AssertedType, L: []Term{tag, payload}}
	} else {
		id := IntLit(int64(fg.g.typeID(x.AssertedType)))
		ok = Eq(tag, id)
		ls := layout(x.AssertedType)
		if len(ls) == 1 && ls[0].Sort == SInt {
			res = &Val{T: x.AssertedType, L: []Term{payload}}
		} else if len(ls) == 1 && ls[0].Sort == SBool {
			res = &Val{T: x.AssertedType, L: []Term{Eq(payload, IntLit(1))}}
		} else {
			res = fg.freshVal(x.AssertedType, "unbox")
			fg.assume(fg.valFacts(res))
		}
	}
	if x.CommaOk {
		// on failure the value is the zero value
		z := fg.zeroVal(x.AssertedType)
		r := &Val{T: x.Type()}
		for i := range res.L {
			r.L = append(r.L, Ite(ok, res.L[i], z.L[i]))
		}
		r.L = append(r.L, ok)
		fg.bind(x, r)
		return
	}
	if fg.safety("typeassert") {
		fg.oblige("typeassert", typeKey(x.AssertedType), ok, x.Pos(), "type assertion cannot fail")
	}
	fg.bind(x, res)
}

func (fg *FnGen) slice(x *ssa.Slice) {
	xv := fg.val(x.X)
	var lo, hi, mx *Term
	if x.Low != nil {
		t := fg.val(x.Low).one()
		lo = &t
	}
	if x.High != nil {
		t := fg.val(x.High).one()
		hi = &t
	}
	if x.Max != nil {
		t := fg.val(x.Max).one()
		mx = &t
	}
	r := fg.sliceOp(xv, x.X.Type(), lo, hi, mx, x.Type(), x.Pos(), exprName(x.X))
	fg.bind(x, r)
}

func (fg *FnGen) sliceOp(xv *Val, XT types.Type, lo, hi, mx *Term, RT types.Type, pos token.Pos, what string) *Val {
	zero := IntLit(0)
	switch t := types.Unalias(XT).Underlying().(type) {
	case *types.Slice:
		arr, off, n, cp := fg.sliceParts(xv)
		l := zero
		if lo != nil {
			l = *lo
		}
		h := n
		if hi != nil {
			h = *hi
		}
		m := cp
		if mx != nil {
			m = *mx
		}
		if fg.safety("bounds") {
			fg.oblige("slice", what, And(Le(zero, l), Le(l, h), Le(h, m), Le(m, cp)), pos, "slice bounds in range")
		}
		return &Val{T: RT, L: []Term{arr, Add(off, l), Sub(h, l), Sub(m, l)}}
	case *types.Basic: // string
		sid := xv.one()
		n := fg.strLen(sid)
		l := zero
		if lo != nil {
			l = *lo
		}
		h := n
		if hi != nil {
			h = *hi
		}
		if fg.safety("bounds") {
			fg.oblige("slice", what, And(Le(zero, l), Le(l, h), Le(h, n)), pos, "string slice bounds in range")
		}
		f := fg.declareFun("str_sub", []Sort{SInt, SInt, SInt}, SInt)
		r := app(f, SInt, sid, l, h)
		fg.assume(Eq(fg.strLen(r), Sub(h, l)))
		k := Term{"k!", SInt}
		body := Implies(And(Le(zero, k), Lt(k, Sub(h, l))), Eq(fg.strAt(r, k), fg.strAt(sid, Add(l, k))))
		fg.assume(Term{fmt.Sprintf("(forall ((k! Int)) (! %s :pattern (%s)))", body.S, fg.strAt(r, k).S), SBool})
		return &Val{T: RT, L: []Term{r}}
	case *types.Pointer:
		at := types.Unalias(t.Elem()).Underlying().(*types.Array)
		var arr Term
		if xv.Loc != nil {
			arr = fg.load(xv.Loc).one()
		} else {
			arr = xv.one()
		}
		n := IntLit(at.Len())
		l := zero
		if lo != nil {
			l = *lo
		}
		h := n
		if hi != nil {
			h = *hi
		}
		if fg.safety("bounds") {
			fg.oblige("slice", what, And(Le(zero, l), Le(l, h), Le(h, n)), pos, "array slice bounds in range")
		}
		return &Val{T: RT, L: []Term{arr, l, Sub(h, l), Sub(n, l)}}
	}
	panic(unsupported("slice of " + XT.String()))
}

func (fg *FnGen) ret(x *ssa.Return) {
	var results []*Val
	for _, r := range x.Results {
		results = append(results, fg.val(r))
	}
	fg.checkPost(results, x.Pos())
}

func (fg *FnGen) panicInstr(x *ssa.Panic) {
	if fg.c != nil && fg.c.Safety["panics"] {
		return // panics allowed
	}
	if fg.safety("panic") {
		fg.oblige("panic", "unreachable", TFalse, x.Pos(), "explicit panic is unreachable")
	}
}

// closureOnlyCalledHere: the closure value is used only as the callee of calls/defers of this function.
func closureOnlyCalledHere(x *ssa.MakeClosure) bool {
	if x.Referrers() == nil {
		return false
	}
	for _, cr := range *x.Referrers() {
		switch c := cr.(type) {
		case *ssa.Defer:
			if c.Call.Value != ssa.Value(x) {
				return false
			}
		case *ssa.Call:
			if c.Call.Value != ssa.Value(x) {
				return false
			}
		case *ssa.DebugRef:
		default:
			return false
		}
	}
	return true
}

// isSemiPrivateAlloc: like isPrivateAlloc, but closures binding the variable may be handed out (go, arguments,
// stores): the variable is private until such a closure has been created.
func (fg *FnGen) isSemiPrivateAlloc(a *ssa.Alloc) bool {
	if fg.semiPrivOf == nil {
		fg.semiPrivOf = map[*ssa.Alloc]bool{}
	}
	if v, ok := fg.semiPrivOf[a]; ok {
		return v
	}
	var addrOK func(v ssa.Value, depth int) bool
	addrOK = func(v ssa.Value, depth int) bool {
		if depth > 4 || v.Referrers() == nil {
			return false
		}
		for _, r := range *v.Referrers() {
			switch x := r.(type) {
			case *ssa.UnOp, *ssa.DebugRef, *ssa.MakeClosure:
			case *ssa.Store:
				if x.Val == v {
					return false
				}
			case *ssa.FieldAddr:
				if !addrOK(x, depth+1) {
					return false
				}
			case *ssa.IndexAddr:
				if !addrOK(x, depth+1) {
					return false
				}
			default:
				return false
			}
		}
		return true
	}
	T := derefType(a.Type())
	res := false
	if _, isArr := types.Unalias(T).Underlying().(*types.Array); !isArr && a.Referrers() != nil {
		for _, r := range *a.Referrers() {
			if _, ok := r.(*ssa.MakeClosure); ok {
				res = true
			}
		}
		res = res && addrOK(a, 0)
	}
	fg.semiPrivOf[a] = res
	return res
}

// isPrivateAlloc: the address is used only for loads, stores, field/index addressing, and as a
// binding of closures that are themselves only called or deferred in this function.
func (fg *FnGen) isPrivateAlloc(a *ssa.Alloc) bool {
	if fg.privateOf == nil {
		fg.privateOf = map[*ssa.Alloc]bool{}
	}
	if v, ok := fg.privateOf[a]; ok {
		return v
	}
	var addrOK func(v ssa.Value, depth int) bool
	addrOK = func(v ssa.Value, depth int) bool {
		if depth > 4 || v.Referrers() == nil {
			return false
		}
		for _, r := range *v.Referrers() {
			switch x := r.(type) {
			case *ssa.UnOp, *ssa.DebugRef:
			case *ssa.Store:
				if x.Val == v {
					return false // the address itself is stored somewhere
				}
			case *ssa.FieldAddr:
				if !addrOK(x, depth+1) {
					return false
				}
			case *ssa.IndexAddr:
				if !addrOK(x, depth+1) {
					return false
				}
			case *ssa.MakeClosure:
				// closure must be used only as the callee of a call/defer
				if x.Referrers() == nil {
					return false
				}
				for _, cr := range *x.Referrers() {
					switch c := cr.(type) {
					case *ssa.Defer:
						if c.Call.Value != ssa.Value(x) {
							return false
						}
					case *ssa.Call:
						if c.Call.Value != ssa.Value(x) {
							return false
						}
					case *ssa.DebugRef:
					default:
						return false
					}
				}
			default:
				return false
			}
		}
		return true
	}
	T := derefType(a.Type())
	if _, isArr := types.Unalias(T).Underlying().(*types.Array); isArr {
		fg.privateOf[a] = false
		return false
	}
	// a local whose address never leaves the function (loads, stores, field/index addressing, closures that are only
	// called here): callees cannot reach it
	res := addrOK(a, 0)
	if !res && fg.isSemiPrivateAlloc(a) && closuresOnlyRead(a, 0) {
		// the variable is handed to closures that escape, but no closure (nor a closure nested in one) ever assigns it:
		// after this function's own stores nobody can change it
		res = true
	}
	fg.privateOf[a] = res
	return res
}

// closuresOnlyRead: every closure binding the variable cell (transitively) only loads from it.
func closuresOnlyRead(cell ssa.Value, depth int) bool {
	if depth > 4 || cell.Referrers() == nil {
		return false
	}
	var readOnly func(v ssa.Value, d int) bool
	readOnly = func(v ssa.Value, d int) bool {
		if d > 4 || v.Referrers() == nil {
			return false
		}
		for _, r := range *v.Referrers() {
			switch x := r.(type) {
			case *ssa.UnOp, *ssa.DebugRef:
			case *ssa.FieldAddr:
				if !readOnly(x, d+1) {
					return false
				}
			case *ssa.IndexAddr:
				if !readOnly(x, d+1) {
					return false
				}
			case *ssa.MakeClosure:
				if !closuresOnlyRead(v, depth+1) {
					return false
				}
			default:
				return false // Store (either side), call argument, ...
			}
		}
		return true
	}
	for _, r := range *cell.Referrers() {
		mc, ok := r.(*ssa.MakeClosure)
		if !ok {
			continue
		}
		fn, ok := mc.Fn.(*ssa.Function)
		if !ok {
			return false
		}
		for i, b := range mc.Bindings {
			if b != cell {
				continue
			}
			if i >= len(fn.FreeVars) || !readOnly(fn.FreeVars[i], 0) {
				return false
			}
		}
	}
	return true
}
