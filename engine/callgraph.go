package main

// Conservative call graph over the functions of the repository, used for one question only:
// "may a call of f (transitively) execute a declared writer of a stable field?". If not, a havoc of
// everything at that call keeps the stable field; otherwise the field is havoced like any other.
//
// Edges: static callees (call, go, defer); interface invocations -> every repository method with the same
// name and an identical signature; calls of function values -> every repository function whose address is
// taken (closures, method values, functions used as operands) with an identical signature; a function value
// handed to code outside the repository may be called by it -> same targets. Code outside the repository is
// assumed not to call into the repository except through such function values and interface values
// (listed assumption).

import (
	"fmt"
	"go/types"
	"os"
	"sort"
	"strings"

	"golang.org/x/tools/go/ssa"
	"golang.org/x/tools/go/ssa/ssautil"
)

type callGraph struct {
	fns       []*ssa.Function
	callees   map[*ssa.Function]map[*ssa.Function]bool
	byMethod  map[string][]*ssa.Function // method name -> repository methods
	addrTaken []*ssa.Function
	reach     map[string]map[*ssa.Function]bool // stable prefix -> functions that may reach a writer
	emit      map[string]map[*ssa.Function]bool // event -> functions that may (transitively) perform it
}

func sigKey(sig *types.Signature) string {
	// parameters and results only (no receiver)
	return types.NewSignatureType(nil, nil, nil, sig.Params(), sig.Results(), sig.Variadic()).String()
}

func (g *Gen) buildCallGraph() *callGraph {
	if g.cg != nil {
		return g.cg
	}
	cg := &callGraph{callees: map[*ssa.Function]map[*ssa.Function]bool{}, byMethod: map[string][]*ssa.Function{}, reach: map[string]map[*ssa.Function]bool{}}
	all := ssautil.AllFunctions(g.prog)
	for fn := range all {
		if fn == nil || !g.inRepo(fnPkgPath(fn)) {
			continue
		}
		cg.fns = append(cg.fns, fn)
	}
	sort.Slice(cg.fns, func(i, j int) bool { return cg.fns[i].String() < cg.fns[j].String() })
	taken := map[*ssa.Function]bool{}
	for _, fn := range cg.fns {
		if fn.Signature.Recv() != nil {
			cg.byMethod[fn.Name()] = append(cg.byMethod[fn.Name()], fn)
		}
		if fn.Parent() != nil {
			taken[fn] = true
		}
		for _, b := range fn.Blocks {
			for _, ins := range b.Instrs {
				var ops []*ssa.Value
				ops = ins.Operands(ops)
				for i, op := range ops {
					if op == nil || *op == nil {
						continue
					}
					f, ok := (*op).(*ssa.Function)
					if !ok {
						continue
					}
					// operand 0 of a call instruction in call position is not "address taken"
					if ci, isCall := ins.(ssa.CallInstruction); isCall && i == 0 && !ci.Common().IsInvoke() && ci.Common().Value == *op {
						continue
					}
					taken[f] = true
				}
			}
		}
	}
	for f := range taken {
		if g.inRepo(fnPkgPath(f)) {
			cg.addrTaken = append(cg.addrTaken, f)
		}
	}
	sort.Slice(cg.addrTaken, func(i, j int) bool { return cg.addrTaken[i].String() < cg.addrTaken[j].String() })
	for _, fn := range cg.fns {
		m := map[*ssa.Function]bool{}
		cg.callees[fn] = m
		for _, b := range fn.Blocks {
			for _, ins := range b.Instrs {
				ci, ok := ins.(ssa.CallInstruction)
				if !ok {
					continue
				}
				for _, t := range g.callTargets(cg, ci.Common()) {
					m[t] = true
				}
			}
		}
	}
	g.cg = cg
	return cg
}

// callTargets: repository functions a call may execute (directly, or by external code calling a function
// value it was handed).
func (g *Gen) callTargets(cg *callGraph, cc *ssa.CallCommon) []*ssa.Function {
	var out []*ssa.Function
	funcValueTargets := func(v ssa.Value) {
		switch x := v.(type) {
		case *ssa.Function:
			out = append(out, x)
			return
		case *ssa.MakeClosure:
			if f, ok := x.Fn.(*ssa.Function); ok {
				out = append(out, f)
				return
			}
		}
		sig, ok := types.Unalias(v.Type()).Underlying().(*types.Signature)
		if !ok {
			return
		}
		k := sigKey(sig)
		for _, f := range cg.addrTaken {
			if sigKey(f.Signature) == k {
				out = append(out, f)
			}
		}
	}
	if cc.IsInvoke() {
		// class hierarchy analysis: repository methods of that name whose receiver type implements the interface
		iface, _ := types.Unalias(cc.Value.Type()).Underlying().(*types.Interface)
		k := sigKey(cc.Method.Type().(*types.Signature))
		for _, f := range cg.byMethod[cc.Method.Name()] {
			if sigKey(f.Signature) != k {
				continue
			}
			if iface != nil && f.Signature.Recv() != nil {
				rt := f.Signature.Recv().Type()
				if !types.Implements(rt, iface) {
					if _, isPtr := types.Unalias(rt).(*types.Pointer); isPtr || !types.Implements(types.NewPointer(rt), iface) {
						continue
					}
				}
			}
			out = append(out, f)
		}
	} else if callee := cc.StaticCallee(); callee != nil {
		if g.inRepo(fnPkgPath(callee)) {
			out = append(out, callee)
		}
	} else if _, isBuiltin := cc.Value.(*ssa.Builtin); !isBuiltin {
		funcValueTargets(cc.Value)
	}
	// function values (and interface values are covered by the invoke rule) passed as arguments may be called
	// by the callee; for repository callees that is already an edge of the callee, for external ones it is not
	callee := cc.StaticCallee()
	if callee == nil || !g.inRepo(fnPkgPath(callee)) {
		for _, a := range cc.Args {
			if _, isFn := types.Unalias(a.Type()).Underlying().(*types.Signature); isFn {
				funcValueTargets(a)
			}
		}
	}
	return out
}

// mayReachWriter: may executing fn store to the stable component (prefix), i.e. is fn a declared writer or
// does it transitively call one?
func (g *Gen) mayReachWriter(prefix string, fn *ssa.Function) bool {
	if fn == nil {
		return true
	}
	if fn.Origin() != nil {
		fn = fn.Origin()
	}
	cg := g.buildCallGraph()
	r, ok := cg.reach[prefix]
	if !ok {
		writers := g.stable[prefix]
		r = map[*ssa.Function]bool{}
		// reverse edges
		rev := map[*ssa.Function][]*ssa.Function{}
		for f, cs := range cg.callees {
			for c := range cs {
				rev[c] = append(rev[c], f)
			}
		}
		var work []*ssa.Function
		pk := stablePrefixPkg(prefix)
		for _, f := range cg.fns {
			if writers[fnKey(f)] && (pk == "" || f.Pkg == nil || f.Pkg.Pkg.Name() == pk || fnPkgName(f) == pk) {
				r[f] = true
				work = append(work, f)
			}
		}
		for len(work) > 0 {
			f := work[len(work)-1]
			work = work[:len(work)-1]
			for _, p := range rev[f] {
				if r[p] {
					continue
				}
				// a caller under contract with a precise heap frame writes what its frame says (frame obligations
				// when it is verified, assumption when it is trusted): it is not a writer unless declared one
				if con := g.contractFor(p); con != nil && con.HasMod && !con.ModAll {
					continue
				}
				r[p] = true
				work = append(work, p)
			}
		}
		cg.reach[prefix] = r
	}
	if !g.inRepo(fnPkgPath(fn)) {
		return false
	}
	if _, known := cg.callees[fn]; !known {
		return true // not part of the analysed program: be conservative
	}
	return r[fn]
}

func fnPkgName(f *ssa.Function) string {
	for f.Parent() != nil {
		f = f.Parent()
	}
	if f.Pkg != nil {
		return f.Pkg.Pkg.Name()
	}
	return ""
}

// stablePrefixPkg: "H:resolve.T.f" -> "resolve"; "" when the prefix has no package part (cells of basic types)
func stablePrefixPkg(prefix string) string {
	p := strings.TrimPrefix(strings.TrimPrefix(prefix, "H:"), "E:")
	if i := strings.Index(p, "."); i > 0 {
		return p[:i]
	}
	return ""
}

// stableKeptAcross: a havoc of everything caused by a call with the given possible targets keeps the stable
// component iff no target may reach one of its writers. unknownTargets: the call may execute code we cannot
// enumerate (never the case with the conservative graph above, kept for clarity).
func (g *Gen) stableKeptAcross(comp string, targets []*ssa.Function) bool {
	for prefix := range g.stable {
		if comp == prefix || strings.HasPrefix(comp, prefix+".") || (strings.HasPrefix(prefix, "M:") && strings.HasPrefix(comp, prefix+"!")) {
			if len(g.stable[prefix]) == 0 {
				return true // no writers at all (stableelems, or a field never stored after construction)
			}
			for _, t := range targets {
				if g.mayReachWriter(prefix, t) {
					if os.Getenv("GOVC_DEBUG_REACH") != "" {
						fmt.Fprintf(os.Stderr, "REACH %s: %s\n", prefix, g.debugReachPath(prefix, t))
					}
					return false
				}
			}
			return true
		}
	}
	return true
}

// ---------------------------------------------------------------------------------------
// Events: `emits ev` on a contract makes every call of that function (or interface method) the event ev.
// A callee declared `count(*)` (or an uncontracted callee that may perform any event) can only perform ev if it
// may (transitively) execute such a call; otherwise the counter is kept.

// directEmitters: repository functions containing a call whose contract emits ev (static callee contract,
// interface method contract, or an assumed contract of code outside the repository).
func (g *Gen) emitReach(ev string) map[*ssa.Function]bool {
	cg := g.buildCallGraph()
	if cg.emit == nil {
		cg.emit = map[string]map[*ssa.Function]bool{}
	}
	if r, ok := cg.emit[ev]; ok {
		return r
	}
	r := map[*ssa.Function]bool{}
	var work []*ssa.Function
	emits := func(con *Contract) bool {
		if con == nil {
			return false
		}
		for _, em := range con.Emits {
			if em.Event == ev {
				return true
			}
		}
		return false
	}
	for _, fn := range cg.fns {
		direct := false
		for _, b := range fn.Blocks {
			for _, ins := range b.Instrs {
				ci, ok := ins.(ssa.CallInstruction)
				if !ok {
					continue
				}
				cc := ci.Common()
				if cc.IsInvoke() {
					if emits(g.contractForMethod(cc.Value.Type(), cc.Method.Name())) {
						direct = true
					}
				} else if callee := cc.StaticCallee(); callee != nil {
					if emits(g.contractFor(callee)) {
						direct = true
					}
				}
			}
		}
		if con := g.contractFor(fn); con != nil {
			// under contract the declared events are the truth (effect obligations / assumption)
			lists, any := false, false
			for _, m := range con.Modifies {
				if e, ok := countEvent(m); ok {
					if e == ev {
						lists = true
					}
					if e == "*" {
						any = true
					}
				}
			}
			if excludedEvents(con)["cnt:"+ev] {
				any = false
			}
			if emits(con) {
				lists = true
			}
			if !lists && !(any && direct) {
				direct = false
			} else {
				direct = true
			}
		}
		if direct {
			r[fn] = true
			work = append(work, fn)
		}
	}
	rev := map[*ssa.Function][]*ssa.Function{}
	for f, cs := range cg.callees {
		for c := range cs {
			rev[c] = append(rev[c], f)
		}
	}
	for len(work) > 0 {
		f := work[len(work)-1]
		work = work[:len(work)-1]
		for _, p := range rev[f] {
			if r[p] {
				continue
			}
			if con := g.contractFor(p); con != nil {
				any := false
				for _, m := range con.Modifies {
					if e, ok := countEvent(m); ok && e == "*" {
						any = true
					}
				}
				if !any || excludedEvents(con)["cnt:"+ev] {
					continue // its declared events do not include ev
				}
			}
			r[p] = true
			work = append(work, p)
		}
	}
	cg.emit[ev] = r
	return r
}

// callMayEmit: may the call cc perform event ev other than by being itself an emitting call (which the
// caller of this function handles through the callee's own `emits` clause)?
func (g *Gen) callMayEmit(ev string, cc *ssa.CallCommon) bool {
	if cc == nil {
		return true
	}
	cg := g.buildCallGraph()
	r := g.emitReach(ev)
	for _, t := range g.callTargets(cg, cc) {
		if t.Origin() != nil {
			t = t.Origin()
		}
		if _, known := cg.callees[t]; !known {
			return true
		}
		if r[t] {
			return true
		}
	}
	return false
}

// debugReachPath prints one call path from fn to a declared writer of prefix (GOVC_DEBUG_REACH).
func (g *Gen) debugReachPath(prefix string, fn *ssa.Function) string {
	cg := g.buildCallGraph()
	writers := g.stable[prefix]
	type item struct {
		f    *ssa.Function
		path string
	}
	seen := map[*ssa.Function]bool{fn: true}
	q := []item{{fn, fnKey(fn)}}
	for len(q) > 0 {
		it := q[0]
		q = q[1:]
		if writers[fnKey(it.f)] {
			return it.path
		}
		var cs []*ssa.Function
		for c := range cg.callees[it.f] {
			cs = append(cs, c)
		}
		sort.Slice(cs, func(i, j int) bool { return cs[i].String() < cs[j].String() })
		for _, c := range cs {
			if !seen[c] {
				seen[c] = true
				q = append(q, item{c, it.path + " -> " + fnKey(c)})
			}
		}
	}
	return ""
}
