package main

// Replay of refuted obligations on the real code (adapters are added per function family).

func replayObligation(verifDir, repoRoot, id string, o *OblReport, replay map[string]any) bool {
	replay["replay"] = "no replay adapter for this function: the obligation and the solver's verdict are the evidence"
	return false
}
