package main

// Replay of refuted postconditions on the real code.
//
// For a function without receiver whose parameters are integers, booleans, strings, []byte or []int, a refuted
// postcondition comes with a model of the inputs. The model is read back from the solver (get-value on the parameter
// leaves and on the elements of the slices), turned into Go literals, and a test is generated that calls the real
// function with these inputs and evaluates the postcondition - translated from the contract expression into Go - on
// the real result. The test is injected with `go test -overlay` (nothing is written to the repository). Only if that
// test reports the postcondition violated is the input counted as a failing input; everything else (methods, heap
// inputs, at-call clauses, invariants, models that do not reproduce) keeps the suffix no-failing-input-found.

import (
	"context"
	"encoding/json"
	"fmt"
	"go/types"
	"os"
	"os/exec"
	"path/filepath"
	"regexp"
	"sort"
	"strconv"
	"strings"
	"time"
)

type ReplaySpec struct {
	ModuleDir string `json:"module_dir"`
	PkgDir    string `json:"pkg_dir"`
	PkgRel    string `json:"pkg_rel"`
	TestName  string `json:"test_name"`
	TestFile  string `json:"test_file"`
	TestSrc   string `json:"test_src"`
	Inputs    string `json:"inputs"`
}

type rParam struct {
	name string
	kind string // int bool string bytes ints
	T    types.Type
}

func replayKind(T types.Type) string {
	switch t := types.Unalias(T).Underlying().(type) {
	case *types.Basic:
		switch {
		case t.Info()&types.IsInteger != 0:
			return "int"
		case t.Info()&types.IsBoolean != 0:
			return "bool"
		case t.Info()&types.IsString != 0:
			return "string"
		}
	case *types.Slice:
		if b, ok := types.Unalias(t.Elem()).Underlying().(*types.Basic); ok {
			if b.Kind() == types.Byte || b.Kind() == types.Uint8 {
				return "bytes"
			}
			if b.Info()&types.IsInteger != 0 {
				return "ints"
			}
		}
	}
	return ""
}

type goTr struct {
	fg      *FnGen
	pkg     *types.Package
	imports map[string]string // path -> name
	params  map[string]rParam
	results []rParam
	env     map[string]CExpr // macro parameters / lets
	inOld   bool
	bound   map[string]bool
	err     error
}

func (tr *goTr) fail(format string, a ...any) string {
	if tr.err == nil {
		tr.err = fmt.Errorf(format, a...)
	}
	return "false"
}

func (tr *goTr) typeStr(T types.Type) string {
	return types.TypeString(T, func(p *types.Package) string {
		if p == tr.pkg {
			return ""
		}
		tr.imports[p.Path()] = p.Name()
		return p.Name()
	})
}

// expr translates a contract expression into Go. Integers are int64 throughout.
func (tr *goTr) expr(e CExpr) string {
	switch x := e.(type) {
	case *CInt:
		return "int64(" + x.Val + ")"
	case *CStr:
		return strconv.Quote(x.Val)
	case *CIdent:
		if tr.bound[x.Name] {
			return x.Name
		}
		if sub, ok := tr.env[x.Name]; ok {
			saved := tr.env
			tr.env = map[string]CExpr{}
			for k, v := range saved {
				if k != x.Name {
					tr.env[k] = v
				}
			}
			r := tr.expr(sub)
			tr.env = saved
			return r
		}
		switch x.Name {
		case "true", "false":
			return x.Name
		case "nil":
			return "nil"
		}
		if p, ok := tr.params[x.Name]; ok {
			n := "a_" + p.name
			if tr.inOld && (p.kind == "bytes" || p.kind == "ints") {
				n += "_old"
			}
			if p.kind == "int" {
				return "int64(" + n + ")"
			}
			return n
		}
		if strings.HasPrefix(x.Name, "result") {
			i := 0
			if x.Name != "result" {
				var err error
				i, err = strconv.Atoi(strings.TrimPrefix(x.Name, "result"))
				if err != nil {
					return tr.fail("unsupported identifier %s", x.Name)
				}
			}
			if i < len(tr.results) {
				if tr.results[i].kind == "int" {
					return fmt.Sprintf("int64(r%d)", i)
				}
				return fmt.Sprintf("r%d", i)
			}
		}
		if l, ok := tr.fg.c.letExpr(x.Name); ok {
			saved := tr.inOld
			tr.inOld = true // lets are evaluated at entry
			r := tr.expr(l)
			tr.inOld = saved
			return r
		}
		if obj := tr.pkg.Scope().Lookup(x.Name); obj != nil {
			if c, ok := obj.(*types.Const); ok {
				if replayKind(c.Type()) == "int" {
					return "int64(" + x.Name + ")"
				}
				return x.Name
			}
		}
		return tr.fail("unsupported identifier %s", x.Name)
	case *COld:
		saved := tr.inOld
		tr.inOld = true
		r := tr.expr(x.X)
		tr.inOld = saved
		return r
	case *CUn:
		switch x.Op {
		case "!":
			return "!(" + tr.expr(x.X) + ")"
		case "-":
			return "(-" + tr.expr(x.X) + ")"
		}
		return tr.fail("unsupported operator %s", x.Op)
	case *CBin:
		l, r := tr.expr(x.L), tr.expr(x.R)
		switch x.Op {
		case "==>":
			return "(!(" + l + ") || (" + r + "))"
		case "<==>":
			return "((" + l + ") == (" + r + "))"
		case "&&", "||", "==", "!=", "<", "<=", ">", ">=", "+", "-", "*":
			if (x.Op == "==" || x.Op == "!=") && (l == "nil" || r == "nil") {
				return "(" + l + " " + x.Op + " " + r + ")"
			}
			return "(" + l + " " + x.Op + " " + r + ")"
		case "/":
			return "(" + l + " / " + r + ")"
		case "%":
			return "(" + l + " % " + r + ")"
		}
		return tr.fail("unsupported operator %s", x.Op)
	case *CIdx:
		return "int64(" + tr.expr(x.X) + "[int(" + tr.expr(x.I) + ")])"
	case *CSel:
		if id, ok := x.X.(*CIdent); ok {
			if _, isP := tr.params[id.Name]; !isP && !tr.bound[id.Name] {
				env := tr.fg.env(tr.fg.entry, tr.fg.entry, nil)
				if path := tr.fg.pkgByName(id.Name, env); path != "" {
					if p := tr.fg.g.allPkgs[path]; p != nil && p.Types != nil {
						if c, ok := p.Types.Scope().Lookup(x.Name).(*types.Const); ok {
							tr.imports[path] = p.Types.Name()
							if replayKind(c.Type()) == "int" {
								return "int64(" + p.Types.Name() + "." + x.Name + ")"
							}
							return p.Types.Name() + "." + x.Name
						}
					}
				}
			}
		}
		return tr.fail("unsupported selector %s", x.cstr())
	case *CQuant:
		if x.Lo == nil {
			return tr.fail("unbounded quantifier cannot be evaluated")
		}
		lo, hi := tr.expr(x.Lo), tr.expr(x.Hi)
		saved := tr.bound[x.Var]
		tr.bound[x.Var] = true
		body := tr.expr(x.Body)
		tr.bound[x.Var] = saved
		if x.Forall {
			return fmt.Sprintf("func() bool { for %s := %s; %s < %s; %s++ { if !(%s) { return false } }; return true }()", x.Var, lo, x.Var, hi, x.Var, body)
		}
		return fmt.Sprintf("func() bool { for %s := %s; %s < %s; %s++ { if %s { return true } }; return false }()", x.Var, lo, x.Var, hi, x.Var, body)
	case *CCall:
		id, ok := x.Fn.(*CIdent)
		if !ok {
			return tr.fail("unsupported call %s", x.cstr())
		}
		switch id.Name {
		case "len":
			return "int64(len(" + tr.expr(x.Args[0]) + "))"
		case "int", "int64", "int32", "uint32", "uint64", "byte", "uint8", "uint", "int8", "int16", "uint16":
			return tr.expr(x.Args[0])
		case "fresh", "allocated":
			return "true"
		}
		if sf := tr.fg.g.cs.Specs[id.Name]; sf != nil && sf.Body != nil && len(sf.Params) == len(x.Args) && !sf.Rec {
			saved := tr.env
			tr.env = map[string]CExpr{}
			for k, v := range saved {
				tr.env[k] = v
			}
			// arguments are translated in the caller's environment: bind them as pre-translated text
			for i, p := range sf.Params {
				tr.env[p.Name] = &cRaw{tr.exprIn(saved, x.Args[i])}
			}
			r := tr.expr(sf.Body)
			tr.env = saved
			return r
		}
		return tr.fail("unsupported function %s", id.Name)
	case *cRaw:
		return x.S
	}
	return tr.fail("unsupported expression %s", e.cstr())
}

// cRaw is already translated Go text (arguments of spec macros).
type cRaw struct{ S string }

func (c *cRaw) cstr() string { return c.S }

func (tr *goTr) exprIn(env map[string]CExpr, e CExpr) string {
	saved := tr.env
	tr.env = env
	r := tr.expr(e)
	tr.env = saved
	return r
}

func (c *Contract) letExpr(name string) (CExpr, bool) {
	for _, l := range c.Lets {
		if l.Name == name {
			return l.Expr, true
		}
	}
	return nil, false
}

// ---------------------------------------------------------------------------------------------------------------

var sexpTok = regexp.MustCompile(`\(|\)|\|[^|]*\||[^\s()]+`)

type sexp struct {
	atom string
	list []*sexp
}

func parseSexp(s string) []*sexp {
	toks := sexpTok.FindAllString(s, -1)
	pos := 0
	var rec func() *sexp
	rec = func() *sexp {
		if pos >= len(toks) {
			return nil
		}
		t := toks[pos]
		pos++
		if t == "(" {
			n := &sexp{}
			for pos < len(toks) && toks[pos] != ")" {
				n.list = append(n.list, rec())
			}
			pos++
			return n
		}
		return &sexp{atom: t}
	}
	var out []*sexp
	for pos < len(toks) {
		out = append(out, rec())
	}
	return out
}

func sexpInt(n *sexp) (int64, bool) {
	if n == nil {
		return 0, false
	}
	if n.atom != "" {
		v, err := strconv.ParseInt(n.atom, 10, 64)
		return v, err == nil
	}
	if len(n.list) == 2 && n.list[0].atom == "-" {
		v, ok := sexpInt(n.list[1])
		return -v, ok
	}
	return 0, false
}

// getValues asks the solver for the value of the given terms in a model of the query (plus pinned facts).
func getValues(work, tag, query string, pins, terms []string) ([]*sexp, bool) {
	i := strings.LastIndex(query, "(check-sat)")
	if i < 0 || len(terms) == 0 {
		return nil, false
	}
	text := query[:i]
	text = strings.Replace(text, "(set-option :produce-models false)", "", 1)
	for _, p := range pins {
		text += "(assert " + p + ")\n"
	}
	text += "(check-sat)\n(get-value (" + strings.Join(terms, " ") + "))\n"
	if !strings.Contains(text, "produce-models") {
		text = "(set-option :produce-models true)\n" + text
	}
	f := filepath.Join(work, "replay_"+tag+".smt2")
	if err := os.WriteFile(f, []byte(text), 0o644); err != nil {
		return nil, false
	}
	ctx, cancel := context.WithTimeout(context.Background(), 25*time.Second)
	defer cancel()
	out, _ := exec.CommandContext(ctx, "z3-new", "-T:20", f).CombinedOutput()
	s := string(out)
	if !strings.HasPrefix(strings.TrimSpace(s), "sat") {
		return nil, false
	}
	rest := strings.TrimSpace(strings.TrimPrefix(strings.TrimSpace(s), "sat"))
	parsed := parseSexp(rest)
	if len(parsed) == 0 || len(parsed[0].list) != len(terms) {
		return nil, false
	}
	var vals []*sexp
	for _, pair := range parsed[0].list {
		if len(pair.list) != 2 {
			return nil, false
		}
		vals = append(vals, pair.list[1])
	}
	return vals, true
}

// buildReplay: nil (with the reason) when the obligation is outside the replayable class.
func buildReplay(o *Obligation, work string, idx int, repoRoot string) (*ReplaySpec, string) {
	fg := o.fg
	if fg == nil || fg.c == nil || o.Kind != "post" {
		return nil, "only refuted postconditions are replayed"
	}
	fn := fg.fn
	if fn.Signature.Recv() != nil || len(fn.FreeVars) > 0 || fn.Parent() != nil || fn.Pkg == nil || fn.TypeParams().Len() > 0 {
		return nil, "only package-level functions without receiver are replayed"
	}
	var clause *Clause
	for i := range fg.c.Ensures {
		if "postcondition: "+fg.c.Ensures[i].Src == o.Desc {
			clause = &fg.c.Ensures[i]
		}
	}
	if clause == nil {
		return nil, "clause not found"
	}
	tr := &goTr{fg: fg, pkg: fn.Pkg.Pkg, imports: map[string]string{}, params: map[string]rParam{}, env: map[string]CExpr{}, bound: map[string]bool{}}
	var ps []rParam
	for i, p := range fn.Params {
		k := replayKind(p.Type())
		name := p.Name()
		if name == "" || name == "_" {
			name = fmt.Sprintf("p%d", i)
		}
		if k == "" {
			return nil, "parameter " + name + " of type " + p.Type().String() + " cannot be built from a model"
		}
		rp := rParam{name: name, kind: k, T: p.Type()}
		ps = append(ps, rp)
		tr.params[name] = rp
	}
	res := fn.Signature.Results()
	for i := 0; i < res.Len(); i++ {
		tr.results = append(tr.results, rParam{name: fmt.Sprintf("r%d", i), kind: replayKind(res.At(i).Type()), T: res.At(i).Type()})
	}
	post := tr.expr(clause.Expr)
	if tr.err != nil {
		return nil, "postcondition outside the translatable subset: " + tr.err.Error()
	}
	// ---- model values
	query := o.query()
	var terms []string
	for _, p := range ps {
		v := fg.params[p.name]
		if v == nil {
			return nil, "parameter not bound"
		}
		switch p.kind {
		case "int", "bool":
			terms = append(terms, v.L[0].S)
		case "string":
			terms = append(terms, fg.strLen(v.L[0]).S)
		case "bytes", "ints":
			terms = append(terms, v.L[0].S, v.L[1].S, v.L[2].S)
		}
	}
	// prefer a small model: slices and strings of at most 48 elements (dropped if there is no such model)
	var small []string
	for _, p := range ps {
		v := fg.params[p.name]
		switch p.kind {
		case "string":
			small = append(small, fmt.Sprintf("(<= %s 48)", fg.strLen(v.L[0]).S))
		case "bytes", "ints":
			small = append(small, fmt.Sprintf("(<= %s 48)", v.L[2].S))
		}
	}
	vals, ok := getValues(work, fmt.Sprintf("%04da", idx), query, small, terms)
	if !ok && len(small) > 0 {
		vals, ok = getValues(work, fmt.Sprintf("%04da2", idx), query, nil, terms)
	}
	if !ok {
		if rq, _ := o.relaxedQuery(); rq != "" {
			query = rq
			vals, ok = getValues(work, fmt.Sprintf("%04dar", idx), query, small, terms)
			if !ok && len(small) > 0 {
				vals, ok = getValues(work, fmt.Sprintf("%04dar2", idx), query, nil, terms)
			}
		}
	}
	if !ok {
		return nil, "the solver gives no model for the parameters"
	}
	const maxLen = 512
	var pins, terms2 []string
	type sl struct{ arr, off, n int64 }
	scal := map[string]string{}
	lens := map[string]sl{}
	k := 0
	for _, p := range ps {
		v := fg.params[p.name]
		switch p.kind {
		case "int":
			n, ok := sexpInt(vals[k])
			if !ok {
				return nil, "unreadable model value"
			}
			scal[p.name] = fmt.Sprint(n)
			pins = append(pins, fmt.Sprintf("(= %s %s)", v.L[0].S, smtInt(n)))
			k++
		case "bool":
			scal[p.name] = vals[k].atom
			pins = append(pins, fmt.Sprintf("(= %s %s)", v.L[0].S, vals[k].atom))
			k++
		case "string":
			n, ok := sexpInt(vals[k])
			if !ok || n < 0 || n > maxLen {
				return nil, "string length in the model is out of the replay range"
			}
			lens[p.name] = sl{n: n}
			pins = append(pins, fmt.Sprintf("(= %s %d)", fg.strLen(v.L[0]).S, n))
			for i := int64(0); i < n; i++ {
				terms2 = append(terms2, fg.strAt(v.L[0], IntLit(i)).S)
			}
			k++
		case "bytes", "ints":
			a, ok1 := sexpInt(vals[k])
			off, ok2 := sexpInt(vals[k+1])
			n, ok3 := sexpInt(vals[k+2])
			if !ok1 || !ok2 || !ok3 || n < 0 || n > maxLen {
				return nil, "slice length in the model is out of the replay range"
			}
			lens[p.name] = sl{a, off, n}
			pins = append(pins, fmt.Sprintf("(= %s %s)", v.L[0].S, smtInt(a)), fmt.Sprintf("(= %s %s)", v.L[1].S, smtInt(off)), fmt.Sprintf("(= %s %d)", v.L[2].S, n))
			et := types.Unalias(p.T).Underlying().(*types.Slice).Elem()
			comp := "E:" + typeKey(et)
			ev, has := fg.entry.ver[comp]
			for i := int64(0); i < n; i++ {
				if has {
					terms2 = append(terms2, Select(Select(ev, v.L[0]), Add(v.L[1], IntLit(i))).S)
				}
			}
			if !has && n > 0 {
				return nil, "element component not part of the query"
			}
			k += 3
		}
	}
	var elems []*sexp
	if len(terms2) > 0 {
		elems, ok = getValues(work, fmt.Sprintf("%04db", idx), query, pins, terms2)
		if !ok {
			return nil, "the solver gives no model for the elements"
		}
	}
	// ---- Go literals
	var decl, args, inputs []string
	e := 0
	for _, p := range ps {
		T := tr.typeStr(p.T)
		n := "a_" + p.name
		switch p.kind {
		case "int":
			decl = append(decl, fmt.Sprintf("\tvar %s %s = %s", n, T, intLitFor(p.T, scal[p.name])))
			inputs = append(inputs, p.name+"="+scal[p.name])
		case "bool":
			decl = append(decl, fmt.Sprintf("\tvar %s %s = %s", n, T, scal[p.name]))
			inputs = append(inputs, p.name+"="+scal[p.name])
		case "string", "bytes", "ints":
			var xs []string
			for i := int64(0); i < lens[p.name].n; i++ {
				v, ok := sexpInt(elems[e])
				e++
				if !ok {
					return nil, "unreadable element value"
				}
				if p.kind != "ints" {
					v = ((v % 256) + 256) % 256
				}
				xs = append(xs, fmt.Sprint(v))
			}
			switch p.kind {
			case "string":
				decl = append(decl, fmt.Sprintf("\tvar %s %s = %s(string([]byte{%s}))", n, T, T, strings.Join(xs, ", ")))
			default:
				decl = append(decl, fmt.Sprintf("\tvar %s %s = %s{%s}", n, T, T, strings.Join(xs, ", ")))
				decl = append(decl, fmt.Sprintf("\t%s_old := append(%s(nil), %s...)", n, T, n), fmt.Sprintf("\t_ = %s_old", n))
			}
			inputs = append(inputs, fmt.Sprintf("%s=[%s]", p.name, strings.Join(xs, " ")))
		}
		args = append(args, n)
	}
	var rs []string
	for i := range tr.results {
		rs = append(rs, fmt.Sprintf("r%d", i))
	}
	call := fn.Name() + "(" + strings.Join(args, ", ") + ")"
	if len(rs) > 0 {
		call = strings.Join(rs, ", ") + " := " + call
	}
	testName := fmt.Sprintf("TestVerifReplay%04d", idx)
	var imp []string
	imp = append(imp, "\t\"testing\"")
	var paths []string
	for p := range tr.imports {
		paths = append(paths, p)
	}
	sort.Strings(paths)
	for _, p := range paths {
		imp = append(imp, fmt.Sprintf("\t%s %q", tr.imports[p], p))
	}
	var uses []string
	for _, r := range rs {
		uses = append(uses, "\t_ = "+r)
	}
	src := fmt.Sprintf(`package %s

// generated by govc: replay of the model of a refuted postcondition on the real code
// obligation: %s
// postcondition: %s

import (
%s
)

func %s(t *testing.T) {
%s
	%s
%s
	if !(%s) {
		t.Fatalf("VERIF-REPLAY-VIOLATED postcondition does not hold on the real code for %s")
	}
	t.Logf("VERIF-REPLAY-HELD")
}
`, fn.Pkg.Pkg.Name(), o.Name, clause.Src, strings.Join(imp, "\n"), testName, strings.Join(decl, "\n"), call, strings.Join(uses, "\n"), post, strings.ReplaceAll(strings.Join(inputs, ", "), `"`, `'`))
	pkgDir := filepath.Dir(fg.g.fset.Position(fn.Pos()).Filename)
	modDir := pkgDir
	for modDir != "/" && modDir != "." {
		if _, err := os.Stat(filepath.Join(modDir, "go.mod")); err == nil {
			break
		}
		modDir = filepath.Dir(modDir)
	}
	rel, _ := filepath.Rel(modDir, pkgDir)
	return &ReplaySpec{ModuleDir: modDir, PkgDir: pkgDir, PkgRel: "./" + rel, TestName: testName,
		TestFile: filepath.Join(pkgDir, fmt.Sprintf("zz_verif_replay_%04d_test.go", idx)), TestSrc: src, Inputs: strings.Join(inputs, ", ")}, ""
}

func smtInt(n int64) string {
	if n < 0 {
		return fmt.Sprintf("(- %d)", -n)
	}
	return fmt.Sprint(n)
}

func intLitFor(T types.Type, v string) string {
	// a model value outside the range of the parameter type cannot occur (range facts are part of the query)
	return v
}

// runReplayTest injects the generated test with -overlay and returns the output of go test.
func runReplayTest(sp *ReplaySpec) string {
	dir, err := os.MkdirTemp("", "govc_replay_")
	if err != nil {
		return "not replayed: " + err.Error()
	}
	defer os.RemoveAll(dir)
	tf := filepath.Join(dir, "replay_test.go")
	_ = os.WriteFile(tf, []byte(sp.TestSrc), 0o644)
	ov := map[string]map[string]string{"Replace": {sp.TestFile: tf}}
	if prev := os.Getenv("GOVC_OVERLAY"); prev != "" {
		// the check itself runs on an overlay (self-test mutants): the replay must see the same code
		if data, err := os.ReadFile(prev); err == nil {
			var m map[string]string
			if json.Unmarshal(data, &m) == nil {
				for k, v := range m {
					ov["Replace"][k] = v
				}
			}
		}
	}
	ovData, _ := json.Marshal(ov)
	ovf := filepath.Join(dir, "overlay.json")
	_ = os.WriteFile(ovf, ovData, 0o644)
	ctx, cancel := context.WithTimeout(context.Background(), 180*time.Second)
	defer cancel()
	cmd := exec.CommandContext(ctx, "go", "test", "-overlay", ovf, "-vet=off", "-count=1", "-timeout", "60s", "-run", "^"+sp.TestName+"$", "-v", sp.PkgRel)
	cmd.Dir = sp.ModuleDir
	env := []string{}
	for _, kv := range os.Environ() {
		if strings.HasPrefix(kv, "GOFLAGS=") || strings.HasPrefix(kv, "GOTOOLCHAIN=") || strings.HasPrefix(kv, "PATH=") || strings.HasPrefix(kv, "GOSUMDB=") {
			continue
		}
		env = append(env, kv)
	}
	path := os.Getenv("PATH")
	// the repository's own toolchain, not the one the verifier is built with
	var keep []string
	for _, p := range strings.Split(path, ":") {
		if !strings.Contains(p, "go1.26.8") {
			keep = append(keep, p)
		}
	}
	// GOSUMDB=off would break the switch to the repository's toolchain (it is in the module cache); the workspace
	// rejects -mod=mod
	env = append(env, "PATH="+strings.Join(keep, ":"), "GOFLAGS=", "GOPROXY=off")
	cmd.Env = env
	out, _ := cmd.CombinedOutput()
	s := string(out)
	if len(s) > 4000 {
		s = s[:4000]
	}
	return s
}

// replayObligation runs the generated test against the real code.
func replayObligation(verifDir, repoRoot, id string, o *OblReport, replay map[string]any) bool {
	if o.Replay == nil {
		why := o.ReplayWhyNot
		if why == "" {
			why = "no model of the inputs (the verdict is not `refuted`), or the obligation is not a postcondition"
		}
		replay["replay"] = "not replayed: " + why + "; the obligation and the solver's verdict are the evidence"
		return false
	}
	sp := o.Replay
	replay["replay_inputs"] = sp.Inputs
	replay["replay_test"] = sp.TestSrc
	replay["replay_spec"] = sp
	s := runReplayTest(sp)
	replay["replay_output"] = s
	replay["how_to_replay"] = "save replay_test as " + sp.TestFile + " and run: cd " + sp.ModuleDir + " && go test -vet=off -count=1 -run '^" + sp.TestName + "$' " + sp.PkgRel
	switch {
	case strings.Contains(s, "VERIF-REPLAY-VIOLATED"):
		replay["replay"] = "REPLAYED: the real function violates the postcondition for the model's inputs (" + sp.Inputs + ")"
		return true
	case strings.Contains(s, "panic:") && strings.Contains(s, sp.TestName):
		replay["replay"] = "REPLAYED: the real function panics for the model's inputs (" + sp.Inputs + ")"
		return true
	case strings.Contains(s, "VERIF-REPLAY-HELD"):
		replay["replay"] = "the model's inputs (" + sp.Inputs + ") do not violate the postcondition on the real code: the model is spurious for the real code (over-approximation in the encoding) or the violation needs a different input"
	default:
		replay["replay"] = "the generated test did not run to a verdict (see replay_output)"
	}
	return false
}
