package main

// `govc check <ID> [--tier quick|thorough]`: property-level driver. Reads /verif/props/<ID>.json,
// verifies the contracts it names on /repo's working tree, writes evidence, prints VIOLATION /
// KNOWN-FINDING lines and sets the exit code.

import (
	"bufio"
	"encoding/json"
	"fmt"
	"os"
	"path/filepath"
	"regexp"
	"sort"
	"strconv"
	"strings"
	"time"
)

type PropUnit struct {
	Module   string   `json:"module"`   // directory under the repository root, e.g. "v2"
	Packages []string `json:"packages"` // package patterns relative to the module
	Funcs    string   `json:"funcs"`    // optional regexp on "<pkgpath>::<key>"
	Tier     string   `json:"tier"`     // "" (both) | "thorough"
}

type PropConfig struct {
	ID          string     `json:"id"`
	Units       []PropUnit `json:"units"`
	TrustedBase []string   `json:"trusted_base"`
	Assumptions []string   `json:"assumptions"`
	NotDecided  []string   `json:"not_decided"`
	MinObls     int        `json:"min_obligations"` // vacuity guard: fewer generated obligations = broken check
	TimeoutS    int        `json:"timeout_s"`
	Bounded     []string   `json:"bounded_cmds"` // bounded stand-ins (never counted as discharged)
	// functions with returns that are known to be unreachable on the unchanged tree (dead code after a callee
	// that is proved not to fail): function -> number of such returns. Any other unreachable return means the
	// assumptions of the check became contradictory (or the code changed) and is reported as CHECK-BROKEN.
	DeadReturns map[string]int `json:"expected_unreachable_returns"`
}

type KnownFinding struct {
	Property   string `json:"property"`
	Status     string `json:"status"` // known | fixed
	Obligation string `json:"obligation"` // regexp on the obligation name
	What       string `json:"what"`
	Commit     string `json:"commit,omitempty"`
	re         *regexp.Regexp
}

func loadKnownFindings(path string) ([]*KnownFinding, error) {
	f, err := os.Open(path)
	if err != nil {
		if os.IsNotExist(err) {
			return nil, nil
		}
		return nil, err
	}
	defer f.Close()
	var out []*KnownFinding
	sc := bufio.NewScanner(f)
	sc.Buffer(make([]byte, 1<<20), 1<<20)
	for sc.Scan() {
		line := strings.TrimSpace(sc.Text())
		if line == "" || strings.HasPrefix(line, "#") || strings.HasPrefix(line, "fixed:") {
			continue
		}
		var k KnownFinding
		if err := json.Unmarshal([]byte(line), &k); err != nil {
			return nil, fmt.Errorf("known_findings: %v in %q", err, line)
		}
		if k.Obligation != "" {
			k.re, err = regexp.Compile("^(" + k.Obligation + ")$")
			if err != nil {
				return nil, err
			}
		}
		out = append(out, &k)
	}
	return out, nil
}

func checkMain(args []string) {
	verifDir := "/verif"
	if d := os.Getenv("VERIF_DIR"); d != "" {
		verifDir = d
	}
	repoRoot := "/repo"
	if d := os.Getenv("VERIF_REPO"); d != "" {
		repoRoot = d
	}
	tier := os.Getenv("VERIF_TIER")
	var id string
	noEvidence := false
	workOverride := ""
	for i := 0; i < len(args); i++ {
		switch args[i] {
		case "--tier":
			i++
			tier = args[i]
		case "--no-evidence":
			noEvidence = true
		case "--work":
			i++
			workOverride = args[i]
		case "--replay":
			i++
			data, err := os.ReadFile(args[i])
			if err != nil {
				fmt.Println(err)
				os.Exit(2)
			}
			fmt.Println(string(data))
			// a replay file with a generated test: run exactly that test against /repo's current working tree
			var rf struct {
				Property   string      `json:"property"`
				Obligation string      `json:"obligation"`
				Spec       *ReplaySpec `json:"replay_spec"`
			}
			if json.Unmarshal(data, &rf) == nil && rf.Spec != nil && rf.Spec.TestSrc != "" {
				out := runReplayTest(rf.Spec)
				fmt.Println(out)
				if strings.Contains(out, "VERIF-REPLAY-VIOLATED") || (strings.Contains(out, "panic:") && strings.Contains(out, rf.Spec.TestName)) {
					fmt.Printf("VIOLATION property=%s replay=%s\n", rf.Property, args[i])
					os.Exit(1)
				}
				fmt.Println("replay: the recorded inputs do not violate the postcondition on the current tree")
				os.Exit(0)
			}
			// otherwise replay = re-run the check of that property; the file names the failed obligation
		default:
			id = args[i]
		}
	}
	if tier == "" {
		tier = "quick"
	}
	seed := 0
	if s := os.Getenv("VERIF_SEED"); s != "" {
		seed, _ = strconv.Atoi(s)
	}
	if id == "" {
		fmt.Fprintln(os.Stderr, "usage: govc check <ID> [--tier quick|thorough]")
		os.Exit(2)
	}
	start := time.Now()
	var cfg PropConfig
	data, err := os.ReadFile(filepath.Join(verifDir, "props", id+".json"))
	if err != nil {
		fmt.Fprintln(os.Stderr, "check:", err)
		os.Exit(2)
	}
	if err := json.Unmarshal(data, &cfg); err != nil {
		fmt.Fprintln(os.Stderr, "check: bad config:", err)
		os.Exit(2)
	}
	known, err := loadKnownFindings(filepath.Join(verifDir, "known_findings.jsonl"))
	if err != nil {
		fmt.Fprintln(os.Stderr, "check:", err)
		os.Exit(2)
	}
	timeout := cfg.TimeoutS
	if timeout == 0 {
		timeout = 20
	}
	if tier == "thorough" {
		timeout *= 3
	}
	work := filepath.Join(verifDir, "work", id)
	if workOverride != "" {
		work = workOverride
	}
	_ = os.RemoveAll(work)
	_ = os.MkdirAll(work, 0o755)
	var reports []*Report
	broken := ""
	for ui, u := range cfg.Units {
		if u.Tier == "thorough" && tier != "thorough" {
			continue
		}
		rep, err := runGovc(Options{Repo: filepath.Join(repoRoot, u.Module), Pkgs: u.Packages, Funcs: u.Funcs,
			Work: filepath.Join(work, fmt.Sprintf("u%d", ui)), Specs: filepath.Join(verifDir, "specs"), Timeout: timeout, Jobs: 16})
		if err != nil {
			// the tree does not load/type-check: not a property verdict
			broken = err.Error()
			break
		}
		reports = append(reports, rep)
	}
	ev := map[string]any{"property_id": id, "tier": tier, "seed": seed, "level": "proof"}
	cov := map[string]any{}
	ev["coverage"] = cov
	if broken != "" {
		fmt.Println("CHECK-BROKEN: cannot load /repo:", firstLines(broken, 5))
		cov["explanation"] = "repository did not load: " + broken
		cov["obligations"] = 0
		cov["discharged"] = 0
		cov["checker_cmd"] = "govc check " + id
		cov["trusted_base"] = cfg.TrustedBase
		cov["evaluations"] = 0
		cov["distinct_nontrivial"] = 0
		ev["wall_s"] = time.Since(start).Seconds()
		if !noEvidence {
			writeEvidence(verifDir, id, ev)
		}
		os.Exit(2)
	}
	total, discharged := 0, 0
	var fnProved, fnFailed, fnTrusted, fnOut []string
	var bad []*OblReport
	solverMs := map[string]int64{}
	var samples []any
	var perObl []any
	notes := map[string]bool{}
	assumed := map[string]bool{}
	kinds := map[string]int{}
	var vacuous []*OblReport
	var solverErrors []*OblReport
	covers, covered := 0, 0
	for _, rep := range reports {
		for _, f := range rep.Functions {
			name := f.Pkg + "::" + f.Key
			switch f.Status {
			case "proved":
				fnProved = append(fnProved, name)
			case "trusted":
				fnTrusted = append(fnTrusted, name+" ("+f.Reason+")")
			case "out-of-reach", "unbound":
				fnOut = append(fnOut, name+" ("+f.Reason+")")
			default:
				fnFailed = append(fnFailed, name)
			}
			for _, n := range f.Notes {
				notes[n] = true
			}
		}
		for _, t := range rep.Trusted {
			assumed[t] = true
		}
		for k, v := range rep.SolverMs {
			solverMs[k] += v
		}
		for _, o := range rep.Obligations {
			if o.Kind == "cover" {
				covers++
				if o.Result == "covered" && o.Output == "" {
					covered++
				}
				if o.Result == "vacuous" {
					vacuous = append(vacuous, o)
				}
				continue
			}
			total++
			kinds[o.Kind]++
			perObl = append(perObl, map[string]any{"name": o.Name, "result": o.Result, "solver": o.Solver, "ms": o.Ms})
			if o.Result == "discharged" {
				discharged++
				if len(samples) < 4 && o.Solver != "trivial" && (o.Kind == "post" || strings.HasPrefix(o.Kind, "inv") || strings.HasPrefix(o.Kind, "pre") || strings.HasPrefix(o.Kind, "at")) {
					samples = append(samples, map[string]any{"obligation": o.Name, "meaning": o.Desc, "at": o.Pos, "solver": o.Solver, "ms": o.Ms})
				}
			} else if o.Result == "solver-error" {
				// every solver rejected the query: the generator produced a malformed VC. Nothing is known about the
				// code; reporting it as a violation would be a false alarm, passing it over would be a hole.
				solverErrors = append(solverErrors, o)
			} else {
				bad = append(bad, o)
			}
		}
	}
	if len(samples) == 0 && len(perObl) > 0 {
		samples = append(samples, perObl[0])
	}
	// classify failures
	violations := 0
	knownHit := []string{}
	_ = os.MkdirAll(filepath.Join(verifDir, "replays", id), 0o755)
	sort.Slice(bad, func(i, j int) bool { return bad[i].Name < bad[j].Name })
	var out []string
	for _, o := range bad {
		var kf *KnownFinding
		for _, k := range known {
			if k.Property == id && k.Status == "known" && k.re != nil && k.re.MatchString(o.Name) {
				kf = k
				break
			}
		}
		if kf != nil {
			out = append(out, fmt.Sprintf("KNOWN-FINDING: property=%s %s: %s", id, o.Name, kf.What))
			knownHit = append(knownHit, o.Name)
			continue
		}
		violations++
		rp := filepath.Join(verifDir, "replays", id, sanitize(strings.NewReplacer("/", "_", ":", "_", "#", "-").Replace(o.Name))+".json")
		replay := map[string]any{"property": id, "obligation": o.Name, "kind": o.Kind, "meaning": o.Desc, "at": o.Pos,
			"verdict": o.Result, "solver": o.Solver, "solver_output": o.Output, "model": o.Model,
			"how_to_replay": "cd /verif && ./bin/govc check " + id + " ; the obligation named here is regenerated from /repo's source and fails again while the defect is present"}
		suffix := ""
		replayed := tryReplay(verifDir, repoRoot, id, o, replay)
		if !replayed {
			suffix = " no-failing-input-found"
		}
		rdata, _ := json.MarshalIndent(replay, "", " ")
		if !noEvidence {
			_ = os.WriteFile(rp, rdata, 0o644)
		}
		out = append(out, fmt.Sprintf("  failed obligation %s (%s) at %s: %s", o.Name, o.Result, o.Pos, o.Desc))
		if r, ok := replay["replay"].(string); ok {
			out = append(out, "  replay: "+r)
		}
		out = append(out, fmt.Sprintf("VIOLATION property=%s replay=%s%s", id, rp, suffix))
	}
	// a failed obligation is assumed afterwards (execution continues only if the check held), so
	// code after it in the same function may be vacuous: that is a consequence, not a broken check
	failedFn := map[string]bool{}
	for _, o := range bad {
		failedFn[o.Fn] = true
	}
	// an unreachable return is ordinary dead code (e.g. `if err != nil` after a callee that is proved
	// to return nil); the check is vacuous only if the precondition is contradictory or NO return of
	// the function is reachable
	coverByFn := map[string][2]int{} // fn -> {returns, vacuous returns}
	for _, rep := range reports {
		for _, o := range rep.Obligations {
			if o.Kind == "cover" && strings.Contains(o.Name, "#cover.return") {
				c := coverByFn[o.Fn]
				c[0]++
				if o.Result == "vacuous" {
					c[1]++
				}
				coverByFn[o.Fn] = c
			}
		}
	}
	var realVacuous []*OblReport
	var deadReturns []string
	for _, o := range vacuous {
		if failedFn[o.Fn] {
			continue
		}
		if strings.Contains(o.Name, "#cover.return") {
			fnName := o.Name[:strings.Index(o.Name, "#")]
			if c := coverByFn[o.Fn]; c[1] < c[0] && c[1] <= cfg.DeadReturns[fnName] {
				deadReturns = append(deadReturns, o.Name+" ("+o.Pos+")")
				continue
			}
		}
		realVacuous = append(realVacuous, o)
	}
	vacuous = realVacuous
	cov["unreachable_returns"] = deadReturns
	for _, o := range vacuous {
		out = append(out, fmt.Sprintf("CHECK-BROKEN: vacuous assumptions at %s (%s)", o.Name, o.Pos))
	}
	for i, o := range solverErrors {
		if i < 5 {
			out = append(out, fmt.Sprintf("CHECK-BROKEN: every solver rejected the query of %s (malformed verification condition): %s", o.Name, firstLines(o.Output, 2)))
		}
	}
	if len(solverErrors) > 0 {
		vacuous = append(vacuous, solverErrors...)
	}
	minObl := cfg.MinObls
	if total < minObl && violations == 0 {
		out = append(out, fmt.Sprintf("CHECK-BROKEN: only %d obligations generated, expected at least %d (contracts no longer bind?)", total, minObl))
	}
	// obligations that fail because of a recorded known finding are reported separately: they are not
	// claimed as proved and not counted among the obligations of the proof-level claim
	cov["obligations"] = total - len(knownHit)
	cov["discharged"] = discharged
	cov["obligations_generated"] = total
	cov["obligations_failing_with_known_findings"] = len(knownHit)
	cov["checker_cmd"] = "govc (VC generator over go/ssa of /repo's working tree) + z3 4.8.12 / z3 5.1.0 / cvc5 1.0 portfolio; every obligation must be unsat on at least one solver"
	tb := append([]string{}, cfg.TrustedBase...)
	for _, a := range sortedKeys(assumed) {
		tb = append(tb, "assumed contract (never proved): "+a)
	}
	cov["trusted_base"] = tb
	cov["obligations_by_kind"] = kinds
	cov["functions_proved"] = fnProved
	cov["functions_failed"] = fnFailed
	cov["functions_assumed_only"] = fnTrusted
	cov["functions_out_of_reach"] = fnOut
	cov["solver_time_ms"] = solverMs
	cov["samples"] = samples
	cov["known_findings_hit"] = knownHit
	cov["vacuity"] = map[string]any{"cover_checks": covers, "covered": covered, "vacuous": len(vacuous),
		"rule": "per function: requires satisfiable; per return: reachable under the assumptions (sat = covered; unknown = inconclusive, not alarmed)"}
	cov["not_decided"] = cfg.NotDecided
	cov["per_obligation"] = perObl
	cov["evaluations"] = total
	cov["distinct_nontrivial"] = total - kinds["trivial"]
	cov["rule"] = "one evaluation = one named proof obligation generated from the current source; non-trivial = sent to a solver"
	as := append([]string{}, cfg.Assumptions...)
	as = append(as, sortedKeys(notes)...)
	ev["assumptions"] = as
	ev["violations"] = violations
	ev["wall_s"] = time.Since(start).Seconds()
	if !noEvidence {
		writeEvidence(verifDir, id, ev)
	}
	for _, l := range out {
		fmt.Println(l)
	}
	fmt.Printf("property %s tier %s: %d obligations, %d discharged, %d known findings, %d violations; %d functions proved, %d failed, %d out of reach; %.1fs\n",
		id, tier, total, discharged, len(knownHit), violations, len(fnProved), len(fnFailed), len(fnOut), time.Since(start).Seconds())
	if violations > 0 {
		os.Exit(1)
	}
	if len(vacuous) > 0 || total < minObl {
		os.Exit(2)
	}
	os.Exit(0)
}

func writeEvidence(verifDir, id string, ev map[string]any) {
	_ = os.MkdirAll(filepath.Join(verifDir, "evidence"), 0o755)
	data, _ := json.MarshalIndent(ev, "", " ")
	_ = os.WriteFile(filepath.Join(verifDir, "evidence", id+".json"), data, 0o644)
}

// tryReplay: run the replay adapter for this obligation if one exists. Returns true if the
// counterexample was reproduced on the real code.
func tryReplay(verifDir, repoRoot, id string, o *OblReport, replay map[string]any) bool {
	return replayObligation(verifDir, repoRoot, id, o, replay)
}
