package main

// Evaluation of contract expressions to SMT terms in a given program state.

import (
	"fmt"
	"go/ast"
	"go/constant"
	"go/token"
	"go/types"
	"strings"

	"golang.org/x/tools/go/ssa"
)

type CEnv struct {
	fg        *FnGen
	st        *State // state in which heap reads happen
	old       *State // state for old(...)
	vars      map[string]*Val
	loop      *loopInfo
	subst     map[ssa.Value]*Val
	noLocals  bool
	calleePkg string
	atBlock   *ssa.BasicBlock
	selfPath  string
	depth     int
	cells     map[string]*Val // captured variables of a closure callee: name -> pointer to the cell
	bound     []string        // SMT symbols of the quantified variables in scope
}

func (fg *FnGen) env(st, old *State, vars map[string]*Val) *CEnv {
	e := &CEnv{fg: fg, st: st, old: old, vars: map[string]*Val{}}
	for k, v := range vars {
		e.vars[k] = v
	}
	return e
}

// mentionsBound: the term contains a quantified variable of the enclosing contract expression.
func (e *CEnv) mentionsBound(t Term) bool {
	for _, b := range e.bound {
		if strings.Contains(t.S, b) {
			return true
		}
	}
	return false
}

func (e *CEnv) with(name string, v *Val) *CEnv {
	n := *e
	n.vars = map[string]*Val{}
	for k, x := range e.vars {
		n.vars[k] = x
	}
	n.vars[name] = v
	return &n
}

var untypedInt = types.Typ[types.UntypedInt]

// ghostIntArray is the type of ghost variables declared `intarray` (a mathematical map Int -> Int)
var ghostIntArray types.Type = types.NewNamed(types.NewTypeName(0, nil, "ghostIntArray", nil), types.NewSlice(types.Typ[types.Int]), nil)
var tInt = types.Typ[types.Int]
var tBool = types.Typ[types.Bool]

func (fg *FnGen) evalBool(e CExpr, env *CEnv) Term {
	v := fg.evalC(e, env)
	t := v.one()
	if t.Sort != SBool {
		panic(unsupported("contract clause is not boolean: " + e.cstr()))
	}
	return t
}

func (fg *FnGen) collectDebugNames() {
	fg.debugNames = map[string][]debugBinding{}
	for _, b := range fg.fn.Blocks {
		for i, ins := range b.Instrs {
			switch x := ins.(type) {
			case *ssa.DebugRef:
				id, ok := x.Expr.(*ast.Ident)
				if !ok {
					continue
				}
				fg.debugNames[id.Name] = append(fg.debugNames[id.Name], debugBinding{v: x.X, block: b, idx: i, addr: x.IsAddr, pos: x.Pos()})
			case *ssa.Alloc:
				if x.Comment != "" {
					fg.debugNames[x.Comment] = append(fg.debugNames[x.Comment], debugBinding{v: x, block: b, idx: i, addr: true, pos: x.Pos()})
				}
			case *ssa.Phi:
				// the merge of a source variable is a binding of that variable at the head of its block (needed when
				// the point of evaluation is dominated by the merge but by no later use: e.g. an outer loop's variable
				// named in an inner loop's invariant)
				if x.Comment != "" {
					fg.debugNames[x.Comment] = append(fg.debugNames[x.Comment], debugBinding{v: x, block: b, idx: i, addr: false, pos: x.Pos()})
				}
			}
		}
	}
}

// lookupLocal resolves a source-level local variable name at a loop head (or at a block).
func (e *CEnv) lookupLocal(name string) (*Val, bool) {
	fg := e.fg
	var at *ssa.BasicBlock
	if e.loop != nil {
		at = e.loop.header
	} else if e.atBlock != nil {
		at = e.atBlock
	} else {
		return nil, false
	}
	// 0. phiN: the N-th phi of the loop header (for loops without a source-level variable)
	if e.loop != nil && strings.HasPrefix(name, "phi") {
		var n int
		if _, err := fmt.Sscanf(name, "phi%d", &n); err == nil {
			k := 0
			for _, ins := range at.Instrs {
				phi, ok := ins.(*ssa.Phi)
				if !ok {
					break
				}
				if k == n {
					return e.ssaVal(phi), true
				}
				k++
			}
		}
	}
	// 1. phi at the loop header carrying that variable
	if e.loop != nil {
		for _, ins := range at.Instrs {
			phi, ok := ins.(*ssa.Phi)
			if !ok {
				break
			}
			if phi.Comment == name {
				return e.ssaVal(phi), true
			}
		}
	}
	bs := fg.debugNames[name]
	// 2. a value defined in the header block (e.g. range index i = phi+1)
	if e.loop != nil {
		for _, b := range bs {
			if b.addr {
				continue
			}
			if ins, ok := b.v.(ssa.Instruction); ok && ins.Block() == at {
				if _, isPhi := b.v.(*ssa.Phi); !isPhi && e.pureInHeader(b.v) {
					return e.ssaVal(b.v), true
				}
			}
			// binding recorded in a loop body block for a header-defined value
			if ins, ok := b.v.(ssa.Instruction); ok && ins.Block() == at && e.loop.body[b.block.Index] {
				if e.pureInHeader(b.v) {
					return e.ssaVal(b.v), true
				}
			}
		}
	}
	// 3. the last binding that dominates the point and is defined outside the loop
	var best *debugBinding
	for i := range bs {
		b := &bs[i]
		var defBlock *ssa.BasicBlock
		switch d := b.v.(type) {
		case ssa.Instruction:
			defBlock = d.Block()
		case *ssa.Parameter, *ssa.FreeVar:
			defBlock = fg.fn.Blocks[0]
		case *ssa.Const:
			defBlock = b.block
		default:
			continue
		}
		if e.loop != nil && e.loop.body[b.block.Index] && b.block != at {
			// binding inside the loop: only usable if it is an address (alloc'd variable)
			if !b.addr {
				continue
			}
		}
		if !(b.block.Dominates(at)) && !b.addr {
			continue
		}
		if e.loop == nil && b.block == at && b.idx >= fg.curInstrIdx && !b.addr {
			continue // bound later in the same block than the point of evaluation
		}
		if defBlock != nil && !defBlock.Dominates(at) {
			continue
		}
		if e.loop != nil && defBlock == at && !b.addr {
			if _, isPhi := b.v.(*ssa.Phi); !isPhi {
				continue
			}
		}
		if best == nil || b.addr || (b.block.Index >= best.block.Index && !best.addr) {
			if best != nil && best.addr && !b.addr {
				continue
			}
			best = b
		}
	}
	if best != nil {
		if best.addr {
			p := e.ssaVal(best.v)
			l := fg.derefQuiet(p)
			return fg.loadIn(e.st, l), true
		}
		return e.ssaVal(best.v), true
	}
	return nil, false
}

func (fg *FnGen) derefQuiet(p *Val) *Loc {
	if p.Loc != nil {
		return p.Loc
	}
	T := derefType(p.T)
	if len(p.L) == 1 {
		if pfx, ok := fg.privateRefs[p.L[0].S]; ok {
			return &Loc{Prefix: pfx, Base: p.L[0], T: T}
		}
	}
	return &Loc{Prefix: typeKey(T), Base: p.one(), T: T}
}

func (e *CEnv) pureInHeader(v ssa.Value) bool {
	switch x := v.(type) {
	case *ssa.BinOp:
		return e.pureOperand(x.X) && e.pureOperand(x.Y)
	case *ssa.Convert:
		return e.pureOperand(x.X)
	case *ssa.ChangeType:
		return e.pureOperand(x.X)
	case *ssa.Phi:
		return true
	}
	return false
}

func (e *CEnv) pureOperand(v ssa.Value) bool {
	ins, ok := v.(ssa.Instruction)
	if !ok {
		return true
	}
	if e.loop == nil || ins.Block() != e.loop.header {
		return !e.loop.body[ins.Block().Index]
	}
	return e.pureInHeader(v)
}

// ssaVal returns the term of an SSA value under the phi substitution of a loop edge.
func (e *CEnv) ssaVal(v ssa.Value) *Val {
	fg := e.fg
	if e.subst != nil {
		if s, ok := e.subst[v]; ok {
			return s
		}
	}
	if _, defined := fg.vals[v]; e.subst != nil || !defined {
		if ins, ok := v.(ssa.Instruction); ok && e.loop != nil && ins.Block() == e.loop.header {
			switch x := v.(type) {
			case *ssa.BinOp:
				return fg.binopQuiet(x.Op, e.ssaVal(x.X), e.ssaVal(x.Y), x.Type())
			case *ssa.Convert:
				return fg.convertQuiet(e.ssaVal(x.X), x.Type())
			case *ssa.ChangeType:
				s := e.ssaVal(x.X)
				return &Val{T: x.Type(), L: s.L, Loc: s.Loc}
			}
		}
	}
	return fg.val(v)
}

// binopQuiet evaluates an operator without generating obligations (spec context).
func (fg *FnGen) binopQuiet(op token.Token, a, b *Val, T types.Type) *Val {
	savedC := fg.c
	fg.c = nil // no safety obligations, exact wrapping
	defer func() { fg.c = savedC }()
	return fg.binop(op, a, b, T, token.NoPos)
}

func (fg *FnGen) convertQuiet(a *Val, T types.Type) *Val {
	savedC := fg.c
	fg.c = nil
	defer func() { fg.c = savedC }()
	return fg.convert(a, T, token.NoPos)
}

func (fg *FnGen) evalC(e CExpr, env *CEnv) *Val {
	env.depth++
	if env.depth > 200 {
		panic(unsupported("contract expression too deep (recursive spec function?)"))
	}
	defer func() { env.depth-- }()
	switch x := e.(type) {
	case *CInt:
		return &Val{T: untypedInt, L: []Term{BigLit(x.Val)}}
	case *CStr:
		return &Val{T: types.Typ[types.String], L: []Term{fg.strLitTerm(x.Val)}}
	case *CIdent:
		return fg.evalIdent(x.Name, env)
	case *COld:
		n := *env
		n.st = env.old
		return fg.evalC(x.X, &n)
	case *CUn:
		switch x.Op {
		case "!":
			return &Val{T: tBool, L: []Term{Not(fg.evalBool(x.X, env))}}
		case "-":
			v := fg.evalC(x.X, env)
			return &Val{T: v.T, L: []Term{app("-", SInt, v.one())}}
		case "*":
			p := fg.evalC(x.X, env)
			return fg.loadIn(env.st, fg.derefQuiet(p))
		case "&":
			l := fg.evalLoc(x.X, env)
			return &Val{T: types.NewPointer(l.T), Loc: l}
		}
	case *CBin:
		return fg.evalBin(x, env)
	case *CSel:
		return fg.evalSel(x, env)
	case *CIdx:
		l, v := fg.evalIndex(x, env)
		if v != nil {
			return v
		}
		return fg.loadIn(env.st, l)
	case *CSlice:
		xv := fg.evalC(x.X, env)
		var lo, hi *Term
		if x.Lo != nil {
			t := fg.evalC(x.Lo, env).one()
			lo = &t
		}
		if x.Hi != nil {
			t := fg.evalC(x.Hi, env).one()
			hi = &t
		}
		savedC := fg.c
		fg.c = nil
		defer func() { fg.c = savedC }()
		return fg.sliceOp(xv, xv.T, lo, hi, nil, xv.T, token.NoPos, "spec")
	case *CCall:
		return fg.evalCall(x, env)
	case *CQuant:
		vars, rng, body := fg.quantParts(x, env)
		var bs []string
		for _, v := range vars {
			bs = append(bs, "("+v+" Int)")
		}
		if x.Forall {
			return &Val{T: tBool, L: []Term{{fmt.Sprintf("(forall (%s) %s)", strings.Join(bs, " "), Implies(rng, body).S), SBool}}}
		}
		return &Val{T: tBool, L: []Term{{fmt.Sprintf("(exists (%s) %s)", strings.Join(bs, " "), And(rng, body).S), SBool}}}
	}
	panic(unsupported("contract expression " + e.cstr()))
}

// quantParts translates a quantifier and flattens directly nested quantifiers of the same kind into one binder
// list (forall a. ra => forall b. rb => P  ==  forall a b. ra && rb => P).
//
// Bound variables that index a slice (s[k]) are translated by the change of variable k = J - off(s), J being the
// absolute position in the backing array: element terms then read (select (select E arr) J), a pattern the
// solvers' E-matching can use, instead of (select ... (+ off k)) which needs arithmetic to match. The change of
// variable is a bijection, so the meaning is unchanged; Add() folds off + (J - off) back to J.
func (fg *FnGen) quantParts(x *CQuant, env *CEnv) ([]string, Term, Term) {
	fg.nfresh++
	bv := sym(fmt.Sprintf("q_%s!%d", x.Var, fg.nfresh))
	b := Term{bv, SInt}
	kterm := b
	if x.Lo != nil {
		for _, carrier := range quantCarriers(x.Body, x.Var) {
			if sv := fg.tryEvalC(carrier, env); sv != nil && sv.Loc == nil && len(sv.L) == 4 {
				if _, ok := types.Unalias(sv.T).Underlying().(*types.Slice); ok {
					kterm = Sub(b, sv.L[1])
					break
				}
			}
		}
	}
	inner := env.with(x.Var, &Val{T: tInt, L: []Term{kterm}})
	inner.bound = append(append([]string{}, env.bound...), bv)
	var rng Term = TTrue
	if x.Lo != nil {
		lo := fg.evalC(x.Lo, env).one()
		hi := fg.evalC(x.Hi, env).one()
		rng = And(Le(lo, kterm), Lt(kterm, hi))
	}
	if q, ok := x.Body.(*CQuant); ok && q.Forall == x.Forall {
		vs, r2, body := fg.quantParts(q, inner)
		return append([]string{bv}, vs...), And(rng, r2), body
	}
	return []string{bv}, rng, fg.evalBool(x.Body, inner)
}

// tryEvalC evaluates e, returning nil instead of failing when it is outside the supported subset here.
func (fg *FnGen) tryEvalC(e CExpr, env *CEnv) (v *Val) {
	defer func() {
		if r := recover(); r != nil {
			if _, ok := r.(unsupported); ok {
				v = nil
				return
			}
			panic(r)
		}
	}()
	return fg.evalC(e, env)
}

// quantCarriers finds the expressions s such that the quantified body contains s[v] with v the bound variable, s not
// mentioning v, any variable bound by a nested quantifier, or old().
func quantCarriers(body CExpr, v string) []CExpr {
	var found []CExpr
	seen := map[string]bool{}
	var walk func(e CExpr, bound map[string]bool)
	mentions := func(e CExpr, names map[string]bool) bool {
		hit := false
		var rec func(e CExpr)
		rec = func(e CExpr) {
			if e == nil || hit {
				return
			}
			switch x := e.(type) {
			case *CIdent:
				if names[x.Name] {
					hit = true
				}
			case *CBin:
				rec(x.L)
				rec(x.R)
			case *CUn:
				rec(x.X)
			case *CSel:
				rec(x.X)
			case *CIdx:
				rec(x.X)
				rec(x.I)
			case *CSlice:
				rec(x.X)
				rec(x.Lo)
				rec(x.Hi)
			case *CCall:
				rec(x.Fn)
				for _, a := range x.Args {
					rec(a)
				}
			case *CQuant:
				hit = true // keep it simple: no quantifiers inside a carrier
			case *COld:
				hit = true
			}
		}
		rec(e)
		return hit
	}
	walk = func(e CExpr, bound map[string]bool) {
		if e == nil {
			return
		}
		switch x := e.(type) {
		case *CBin:
			walk(x.L, bound)
			walk(x.R, bound)
		case *CUn:
			walk(x.X, bound)
		case *CSel:
			walk(x.X, bound)
		case *CIdx:
			if id, ok := x.I.(*CIdent); ok && id.Name == v && !bound[v] {
				names := map[string]bool{v: true}
				for k := range bound {
					names[k] = true
				}
				if !mentions(x.X, names) && !seen[x.X.cstr()] {
					seen[x.X.cstr()] = true
					found = append(found, x.X)
				}
			}
			walk(x.X, bound)
			walk(x.I, bound)
		case *CSlice:
			walk(x.X, bound)
			walk(x.Lo, bound)
			walk(x.Hi, bound)
		case *CCall:
			for _, a := range x.Args {
				walk(a, bound)
			}
		case *CQuant:
			nb := map[string]bool{}
			for k := range bound {
				nb[k] = true
			}
			nb[x.Var] = true
			walk(x.Lo, bound)
			walk(x.Hi, bound)
			walk(x.Body, nb)
		case *COld:
			// the carrier must be evaluated in the state of the quantifier itself
		}
	}
	walk(body, map[string]bool{})
	return found
}

func (fg *FnGen) evalIdent(name string, env *CEnv) *Val {
	if strings.HasPrefix(name, "\x00") {
		// local(name): skip the bindings of the contract language (result, arg0...) and resolve a program variable
		name = name[1:]
		if !env.noLocals {
			if v, ok := env.lookupLocal(name); ok {
				return v
			}
		}
		if v, ok := fg.params[name]; ok {
			return v
		}
		panic(unsupported("local(" + name + "): no such variable here"))
	}
	if _, isParam := fg.params[name]; isParam && !fg.isFreeVarName(name) && (env.loop != nil || env.atBlock != nil) && !env.noLocals && env.calleePkg == "" && fg.paramReassigned(name) {
		// a parameter that the function assigns: inside the body (loop invariants, at-call clauses) the name denotes
		// the variable's current value; in requires/ensures it denotes the entry value
		if v, ok := env.lookupLocal(name); ok {
			return v
		}
	}
	if v, ok := env.vars[name]; ok {
		return v
	}
	if c, ok := env.cells[name]; ok {
		return fg.loadIn(env.st, fg.derefQuiet(c))
	}
	switch name {
	case "zeroarray":
		return &Val{T: ghostIntArray, L: []Term{{"((as const (Array Int Int)) 0)", ArrSort(SInt)}}}
	case "true":
		return &Val{T: tBool, L: []Term{TTrue}}
	case "false":
		return &Val{T: tBool, L: []Term{TFalse}}
	case "nil":
		return &Val{T: types.Typ[types.UntypedNil], L: []Term{IntLit(0)}}
	}
	if !env.noLocals || env.calleePkg == "" {
		if v, ok := fg.lets[name]; ok && env.calleePkg == "" {
			return v
		}
		if comp, ok := fg.ghosts[name]; ok && env.calleePkg == "" {
			var gt types.Type = tInt
			if fg.compSorts[comp] == SBool {
				gt = tBool
			}
			if fg.compSorts[comp] == ArrSort(SInt) {
				gt = ghostIntArray
			}
			if T, ok := fg.ghostTypes[name]; ok {
				gt = T
			}
			return &Val{T: gt, L: []Term{fg.get(env.st, comp, fg.compSorts[comp])}}
		}
	}
	if env.calleePkg == "" {
		// a parameter that is only spilled to a cell (captured by a closure) and never reassigned keeps
		// its entry value: use it directly (the cell is not yet initialised in the entry state)
		if v, ok := fg.params[name]; ok && fg.paramNeverReassigned(name) {
			isFree := false
			for _, fv := range fg.fn.FreeVars {
				if fv.Name() == name {
					isFree = true
				}
			}
			if !isFree {
				return v
			}
		}
		if v, ok := fg.params[name]; ok && fg.isFreeVarName(name) {
			// a variable captured by reference is a memory cell: its value is what the cell holds in the state at hand
			// (a debug binding of the name would be a load made earlier - stale after an assignment)
			return fg.loadIn(env.st, fg.derefQuiet(v))
		}
		if !env.noLocals {
			if v, ok := env.lookupLocal(name); ok {
				return v
			}
		}
		if v, ok := fg.params[name]; ok {
			// free variables of closures are captured by reference
			for _, fv := range fg.fn.FreeVars {
				if fv.Name() == name {
					return fg.loadIn(env.st, fg.derefQuiet(v))
				}
			}
			return v
		}
	}
	// package-level constant of the function's (or callee's) package
	pkgPath := env.calleePkg
	if pkgPath == "" {
		pkgPath = fnPkgPath(fg.fn)
	}
	if v := fg.pkgConst(pkgPath, name); v != nil {
		return v
	}
	// package-level variable: its current value
	if sp := fg.g.ssaPkgs[pkgPath]; sp != nil {
		if gv := sp.Var(name); gv != nil {
			addr := fg.val(gv)
			return fg.loadIn(env.st, fg.derefQuiet(addr))
		}
	}
	panic(unsupported("unresolved identifier " + name + " in contract of " + fg.key))
}

func (fg *FnGen) pkgConst(pkgPath, name string) *Val {
	p := fg.g.allPkgs[pkgPath]
	if p == nil || p.Types == nil {
		return nil
	}
	obj := p.Types.Scope().Lookup(name)
	if c, ok := obj.(*types.Const); ok {
		return fg.constToVal(c)
	}
	return nil
}

func (fg *FnGen) constToVal(c *types.Const) *Val {
	switch c.Val().Kind() {
	case constant.Int:
		return &Val{T: c.Type(), L: []Term{BigLit(c.Val().ExactString())}}
	case constant.Bool:
		return &Val{T: c.Type(), L: []Term{BoolLit(constant.BoolVal(c.Val()))}}
	case constant.String:
		return &Val{T: c.Type(), L: []Term{fg.strLitTerm(constant.StringVal(c.Val()))}}
	}
	return nil
}

func (fg *FnGen) pkgByName(name string, env *CEnv) string {
	// imports of the package the contract lives in
	from := env.calleePkg
	if from == "" {
		from = fnPkgPath(fg.fn)
	}
	if p := fg.g.allPkgs[from]; p != nil {
		for path, imp := range p.Imports {
			if imp.Name == name || (imp.Types != nil && imp.Types.Name() == name) {
				return path
			}
		}
	}
	for path, p := range fg.g.allPkgs {
		if p.Name == name && fg.g.inRepo(path) {
			return path
		}
	}
	for path, p := range fg.g.allPkgs {
		if p.Name == name {
			return path
		}
	}
	return ""
}

func (fg *FnGen) evalSel(x *CSel, env *CEnv) *Val {
	// package-qualified constant?
	if id, ok := x.X.(*CIdent); ok {
		if _, isVar := env.vars[id.Name]; !isVar && !fg.isLocalName(id.Name, env) {
			if path := fg.pkgByName(id.Name, env); path != "" {
				if v := fg.pkgConst(path, x.Name); v != nil {
					return v
				}
				// package-level variable of another package: its current value
				if sp := fg.g.ssaPkgs[path]; sp != nil {
					if gv := sp.Var(x.Name); gv != nil {
						addr := fg.val(gv)
						return fg.loadIn(env.st, fg.derefQuiet(addr))
					}
				}
				panic(unsupported("unknown constant " + id.Name + "." + x.Name))
			}
		}
	}
	base := fg.evalC(x.X, env)
	// pointer to struct: field load
	if base.Loc != nil || derefType(base.T) != nil {
		l := fg.derefQuiet(base)
		fl := fg.fieldLoc(l, x.Name)
		if fl == nil {
			panic(unsupported(fmt.Sprintf("no field %s in %s", x.Name, l.T)))
		}
		return fg.loadIn(env.st, fl)
	}
	// struct value
	if st, ok := types.Unalias(base.T).Underlying().(*types.Struct); ok {
		for i := 0; i < st.NumFields(); i++ {
			if st.Field(i).Name() == x.Name {
				lo, hi := fieldRange(st, i)
				return &Val{T: st.Field(i).Type(), L: base.L[lo:hi]}
			}
		}
		// promoted through embedded fields
		for i := 0; i < st.NumFields(); i++ {
			if st.Field(i).Embedded() {
				lo, hi := fieldRange(st, i)
				inner := &Val{T: st.Field(i).Type(), L: base.L[lo:hi]}
				if ist, ok := types.Unalias(inner.T).Underlying().(*types.Struct); ok {
					for j := 0; j < ist.NumFields(); j++ {
						if ist.Field(j).Name() == x.Name {
							l2, h2 := fieldRange(ist, j)
							return &Val{T: ist.Field(j).Type(), L: inner.L[l2:h2]}
						}
					}
				}
			}
		}
	}
	panic(unsupported(fmt.Sprintf("selector %s on %s", x.Name, base.T)))
}

func (fg *FnGen) isLocalName(name string, env *CEnv) bool {
	if env.calleePkg != "" {
		return false
	}
	if _, ok := fg.params[name]; ok {
		return true
	}
	if _, ok := fg.lets[name]; ok {
		return true
	}
	if _, ok := fg.debugNames[name]; ok && !env.noLocals {
		return true
	}
	return false
}

func (fg *FnGen) fieldLoc(l *Loc, name string) *Loc {
	st, ok := types.Unalias(l.T).Underlying().(*types.Struct)
	if !ok {
		return nil
	}
	// ghost field?
	for _, d := range fg.g.cs.Decls {
		if d.Kind == "ghostfield" && len(d.Args) >= 2 {
			tf := d.Args[0]
			k := strings.LastIndex(tf, ".")
			if k > 0 && tf[k+1:] == name && strings.HasSuffix(l.Prefix, tf[:k]) {
				nl := *l
				nl.Prefix = l.Prefix + ".$" + name
				nl.T = tInt
				if d.Args[1] == "bool" {
					nl.T = tBool
				}
				return &nl
			}
		}
	}
	for i := 0; i < st.NumFields(); i++ {
		f := st.Field(i)
		if f.Name() == name {
			nl := *l
			nl.Prefix = l.Prefix + "." + f.Name()
			nl.T = f.Type()
			return &nl
		}
	}
	for i := 0; i < st.NumFields(); i++ {
		f := st.Field(i)
		if f.Embedded() {
			nl := *l
			nl.Prefix = l.Prefix + "." + f.Name()
			nl.T = f.Type()
			if _, isStruct := types.Unalias(f.Type()).Underlying().(*types.Struct); isStruct {
				if r := fg.fieldLoc(&nl, name); r != nil {
					return r
				}
			}
		}
	}
	return nil
}

// evalLoc evaluates an lvalue expression to a location.
func (fg *FnGen) evalLoc(e CExpr, env *CEnv) *Loc {
	switch x := e.(type) {
	case *CSel:
		var l *Loc
		if inner, ok := x.X.(*CSel); ok {
			// try as location first to keep embedded-struct paths flat
			if b := fg.tryEvalLoc(inner, env); b != nil {
				if _, isStruct := types.Unalias(b.T).Underlying().(*types.Struct); isStruct {
					l = b
				}
			}
		}
		if l == nil {
			base := fg.evalC(x.X, env)
			if base.Loc == nil && derefType(base.T) == nil {
				panic(unsupported("not an lvalue: " + e.cstr()))
			}
			l = fg.derefQuiet(base)
		}
		fl := fg.fieldLoc(l, x.Name)
		if fl == nil {
			panic(unsupported("no field " + x.Name))
		}
		return fl
	case *CUn:
		if x.Op == "*" {
			p := fg.evalC(x.X, env)
			return fg.derefQuiet(p)
		}
	case *CIdx:
		l, _ := fg.evalIndex(x, env)
		if l != nil {
			return l
		}
	case *CIdent:
		// a closure's captured variable
		if v, ok := fg.params[x.Name]; ok {
			for _, fv := range fg.fn.FreeVars {
				if fv.Name() == x.Name {
					return fg.derefQuiet(v)
				}
			}
		}
	}
	panic(unsupported("not an lvalue: " + e.cstr()))
}

func (fg *FnGen) tryEvalLoc(e CExpr, env *CEnv) (l *Loc) {
	defer func() {
		if r := recover(); r != nil {
			if _, ok := r.(unsupported); ok {
				l = nil
				return
			}
			panic(r)
		}
	}()
	return fg.evalLoc(e, env)
}

func (fg *FnGen) evalIndex(x *CIdx, env *CEnv) (*Loc, *Val) {
	xv := fg.evalC(x.X, env)
	if xv.T == ghostIntArray && len(xv.L) == 1 {
		idx := fg.evalC(x.I, env).one()
		return nil, &Val{T: tInt, L: []Term{Select(xv.L[0], idx)}}
	}
	switch t := types.Unalias(xv.T).Underlying().(type) {
	case *types.Slice:
		idx := fg.evalC(x.I, env).one()
		return &Loc{Elem: true, Prefix: typeKey(t.Elem()), Arr: xv.L[0], Idx: Add(xv.L[1], idx), T: t.Elem()}, nil
	case *types.Basic:
		idx := fg.evalC(x.I, env).one()
		return nil, &Val{T: types.Typ[types.Byte], L: []Term{fg.strAt(xv.one(), idx)}}
	case *types.Map:
		key := fg.mapKey(fg.evalC(x.I, env))
		return nil, fg.mapGet(env.st, xv, t, key)
	case *types.Array:
		idx := fg.evalC(x.I, env).one()
		return &Loc{Elem: true, Prefix: typeKey(t.Elem()), Arr: xv.one(), Idx: idx, T: t.Elem()}, nil
	}
	panic(unsupported("index of " + xv.T.String()))
}

func (fg *FnGen) evalBin(x *CBin, env *CEnv) *Val {
	mkb := func(t Term) *Val { return &Val{T: tBool, L: []Term{t}} }
	switch x.Op {
	case "&&":
		return mkb(And(fg.evalBool(x.L, env), fg.evalBool(x.R, env)))
	case "||":
		return mkb(Or(fg.evalBool(x.L, env), fg.evalBool(x.R, env)))
	case "==>":
		return mkb(Implies(fg.evalBool(x.L, env), fg.evalBool(x.R, env)))
	case "<==>":
		return mkb(Eq(fg.evalBool(x.L, env), fg.evalBool(x.R, env)))
	}
	a := fg.evalC(x.L, env)
	b := fg.evalC(x.R, env)
	switch x.Op {
	case "==", "!=":
		var eq Term
		if isNilVal(b) {
			eq = fg.isNil(a)
		} else if isNilVal(a) {
			eq = fg.isNil(b)
		} else {
			eq = fg.cValEq(a, b)
		}
		if x.Op == "!=" {
			eq = Not(eq)
		}
		return mkb(eq)
	}
	p, q := a.one(), b.one()
	T := a.T
	if T == untypedInt {
		T = b.T
	}
	switch x.Op {
	case "<":
		return mkb(Lt(p, q))
	case "<=":
		return mkb(Le(p, q))
	case ">":
		return mkb(Gt(p, q))
	case ">=":
		return mkb(Ge(p, q))
	// arithmetic in contracts is mathematical (unbounded)
	case "+":
		return &Val{T: T, L: []Term{Add(p, q)}}
	case "-":
		return &Val{T: T, L: []Term{Sub(p, q)}}
	case "*":
		return &Val{T: T, L: []Term{Mul(p, q)}}
	case "/":
		return &Val{T: T, L: []Term{app("div", SInt, p, q)}}
	case "%":
		return &Val{T: T, L: []Term{app("mod", SInt, p, q)}}
	}
	panic(unsupported("operator " + x.Op))
}

func isNilVal(v *Val) bool {
	b, ok := v.T.(*types.Basic)
	return ok && b.Kind() == types.UntypedNil
}

func (fg *FnGen) isNil(v *Val) Term {
	if v.Loc != nil {
		return TFalse
	}
	return Eq(v.L[0], IntLit(0))
}

func (fg *FnGen) evalCall(x *CCall, env *CEnv) *Val {
	id, ok := x.Fn.(*CIdent)
	if !ok {
		// type conversion like time.Duration(x) or pkg-qualified spec: treat T(x) as identity on ints
		if sel, ok := x.Fn.(*CSel); ok && len(x.Args) == 1 {
			_ = sel
			return fg.evalC(x.Args[0], env)
		}
		panic(unsupported("call " + x.cstr()))
	}
	switch id.Name {
	case "len":
		v := fg.evalC(x.Args[0], env)
		if mt, ok := types.Unalias(v.T).Underlying().(*types.Map); ok {
			if env.mentionsBound(v.one()) {
				// under a quantifier the facts about the length cannot be asserted outside of it
				mc := mapComp(mt)
				return &Val{T: tInt, L: []Term{Select(fg.get(env.st, mc+"!len", ArrSort(SInt)), v.one())}}
			}
			return &Val{T: tInt, L: []Term{fg.mapLen(env.st, v, mt)}}
		}
		if len(v.L) == 4 && v.Loc == nil && !env.mentionsBound(v.L[2]) && !env.mentionsBound(v.L[3]) {
			// well-formed slice header in any state: 0 <= len <= cap <= 2^50
			fg.assume(And(Le(IntLit(0), v.L[2]), Le(v.L[2], v.L[3]), Le(v.L[3], maxLenTerm)))
		}
		return &Val{T: tInt, L: []Term{fg.lenOf(v)}}
	case "cap":
		v := fg.evalC(x.Args[0], env)
		return &Val{T: tInt, L: []Term{v.L[3]}}
	case "global":
		// mutable ghost global (e.g. the version of all JSON values); havoced by unknown calls
		comp := "gg:" + x.Args[0].cstr()
		return &Val{T: tInt, L: []Term{fg.get(env.st, comp, SInt)}}
	case "count":
		ev := x.Args[0].cstr()
		return &Val{T: tInt, L: []Term{fg.get(env.st, "cnt:"+ev, SInt)}}
	case "held", "rheld":
		comp, idx := fg.evalLockPath(x.Args[0], env)
		if id.Name == "rheld" {
			comp = "r" + comp
		}
		a := fg.get(env.st, comp, ArrSort(SBool))
		return &Val{T: tBool, L: []Term{Select(a, idx)}}
	case "oldsel":
		// oldsel(p, f): the value field f of *p had in the old state, with p evaluated in the current state
		v := fg.evalC(x.Args[0], env)
		l := fg.derefQuiet(v)
		fl := fg.fieldLoc(l, x.Args[1].cstr())
		if fl == nil {
			panic(unsupported("oldsel: no field " + x.Args[1].cstr()))
		}
		return fg.loadIn(env.old, fl)
	case "ghostat":
		// ghostat(T.f, r): value of the ghost field T.f of the object with reference r
		path := x.Args[0].cstr()
		pkgPath := env.calleePkg
		if pkgPath == "" || pkgPath == "<spec>" {
			pkgPath = fnPkgPath(fg.fn)
		}
		pn := ""
		if p := fg.g.allPkgs[pkgPath]; p != nil {
			pn = p.Name + "."
		}
		k := strings.LastIndex(path, ".")
		comp := "H:" + pn + path[:k] + ".$" + path[k+1:]
		sort := SInt
		var T types.Type = tInt
		for _, d := range fg.g.cs.Decls {
			if d.Kind == "ghostfield" && len(d.Args) >= 2 && d.Args[0] == path && d.Args[1] == "bool" {
				sort = SBool
				T = tBool
			}
		}
		a := fg.get(env.st, comp, ArrSort(sort))
		r := fg.evalC(x.Args[1], env)
		return &Val{T: T, L: []Term{Select(a, r.L[0])}}
	case "noneheld":
		// this goroutine holds no mutex of the given kind (T.mu)
		path := x.Args[0].cstr()
		pkgPath := env.calleePkg
		if pkgPath == "" || pkgPath == "<spec>" {
			pkgPath = fnPkgPath(fg.fn)
		}
		pn := ""
		if p := fg.g.allPkgs[pkgPath]; p != nil {
			pn = p.Name + "."
		}
		a := fg.get(env.st, "held:"+pn+path, ArrSort(SBool))
		ra := fg.get(env.st, "rheld:"+pn+path, ArrSort(SBool))
		return &Val{T: tBool, L: []Term{{fmt.Sprintf("(forall ((r! Int)) (and (not (select %s r!)) (not (select %s r!))))", a.S, ra.S), SBool}}}
	case "atomic":
		// last observed/written value of an atomic field
		l := fg.evalLoc(x.Args[0], env)
		sort := SInt
		if n, ok := types.Unalias(l.T).(*types.Named); ok && n.Obj().Name() == "Bool" {
			sort = SBool
		}
		a := fg.get(env.st, "A:"+l.Prefix, ArrSort(sort))
		T := types.Type(tInt)
		if sort == SBool {
			T = tBool
		}
		return &Val{T: T, L: []Term{Select(a, l.Base)}}
	case "has":
		m := fg.evalC(x.Args[0], env)
		mt := types.Unalias(m.T).Underlying().(*types.Map)
		key := fg.mapKey(fg.evalC(x.Args[1], env))
		return &Val{T: tBool, L: []Term{fg.mapHas(env.st, m, mt, key)}}
	case "store":
		a := fg.evalC(x.Args[0], env)
		i := fg.evalC(x.Args[1], env).one()
		v := fg.evalC(x.Args[2], env).one()
		return &Val{T: ghostIntArray, L: []Term{Store(a.L[0], i, v)}}
	case "cat":
		a := fg.evalC(x.Args[0], env)
		b := fg.evalC(x.Args[1], env)
		f := fg.declareFun("str_cat", []Sort{SInt, SInt}, SInt)
		return &Val{T: types.Typ[types.String], L: []Term{app(f, SInt, a.one(), b.one())}}
	case "arr":
		v := fg.evalC(x.Args[0], env)
		return &Val{T: tInt, L: []Term{v.L[0]}}
	case "off":
		// offset of a slice within its backing array
		v := fg.evalC(x.Args[0], env)
		if len(v.L) != 4 {
			panic(unsupported("off() of a non-slice"))
		}
		return &Val{T: tInt, L: []Term{v.L[1]}}
	case "allocated":
		// the reference (array of a slice) denotes memory that exists in the state at hand (or is nil)
		v := fg.evalC(x.Args[0], env)
		return &Val{T: tBool, L: []Term{Lt(v.L[0], fg.get(env.st, "$alloc", SInt))}}
	case "fresh":
		v := fg.evalC(x.Args[0], env)
		return &Val{T: tBool, L: []Term{Ge(v.L[0], fg.get(env.old, "$alloc", SInt))}}
	case "tag":
		// dynamic type tag of an interface value: tag(x) == typeid(T) is written istype(x, "pkg.T")
		v := fg.evalC(x.Args[0], env)
		return &Val{T: tInt, L: []Term{v.L[0]}}
	case "visited":
		// visited(n, k): key k has been produced by the n-th range-over-map statement of the function
		n, ok := x.Args[0].(*CInt)
		if !ok || len(x.Args) != 2 {
			panic(unsupported("visited(n, key) needs a literal ordinal"))
		}
		comp := "ghost:$vis!" + n.Val
		fg.compSort(comp, ArrSort(SBool))
		key := fg.mapKey(fg.evalC(x.Args[1], env))
		return &Val{T: tBool, L: []Term{Select(fg.get(env.st, comp, ArrSort(SBool)), key)}}
	case "waitson":
		// inside `at call $wait`: the blocking wait listens (among others) to this channel
		ch := fg.evalC(x.Args[0], env).one()
		var alts []Term
		for _, c := range fg.waitChans {
			alts = append(alts, Eq(c, ch))
		}
		return &Val{T: tBool, L: []Term{Or(alts...)}}
	case "loopphi":
		// loopphi(L, N): the N-th phi of the header of loop L (an enclosing loop): lets an inner invariant speak
		// about the progress of the outer loop
		L, ok1 := x.Args[0].(*CInt)
		N, ok2 := x.Args[1].(*CInt)
		if !ok1 || !ok2 {
			panic(unsupported("loopphi(L, N) needs literal ordinals"))
		}
		var li *loopInfo
		for _, l := range fg.loops {
			if l != nil && fmt.Sprint(l.ordinal) == L.Val {
				li = l
			}
		}
		if li == nil {
			panic(unsupported("loopphi: no loop " + L.Val))
		}
		k := 0
		for _, ins := range li.header.Instrs {
			phi, ok := ins.(*ssa.Phi)
			if !ok {
				break
			}
			if fmt.Sprint(k) == N.Val {
				if env.loop != nil && env.loop != li && !li.header.Dominates(env.loop.header) {
					panic(unsupported("loopphi: loop " + L.Val + " does not enclose this loop"))
				}
				return env.ssaVal(phi)
			}
			k++
		}
		panic(unsupported("loopphi: no such phi"))
	case "payload":
		// boxed value of an interface holding a single-leaf value (ints, pointers)
		v := fg.evalC(x.Args[0], env)
		if len(v.L) != 2 {
			panic(unsupported("payload() of a non-interface value"))
		}
		return &Val{T: tInt, L: []Term{v.L[1]}}
	case "istype":
		v := fg.evalC(x.Args[0], env)
		s, ok := x.Args[1].(*CStr)
		if !ok {
			panic(unsupported("istype needs a string type name"))
		}
		id, ok := fg.g.typeIDs[s.Val]
		if !ok {
			id = len(fg.g.typeIDs) + 1
			fg.g.typeIDs[s.Val] = id
		}
		return &Val{T: tBool, L: []Term{Eq(v.L[0], IntLit(int64(id)))}}
	case "int", "int32", "int64", "uint32", "uint64", "byte", "uint8", "uint", "int8", "int16", "uint16", "string":
		a := fg.evalC(x.Args[0], env)
		if id.Name == "string" && len(a.L) == 4 {
			// string(bytes): the same function of the bytes as the conversion in the code, in the state at hand
			saved := fg.cur
			fg.cur = env.st
			r := fg.convertQuiet(a, types.Typ[types.String])
			fg.cur = saved
			return r
		}
		return a
	case "ite":
		c := fg.evalBool(x.Args[0], env)
		a := fg.evalC(x.Args[1], env)
		b := fg.evalC(x.Args[2], env)
		r := &Val{T: a.T}
		for i := range a.L {
			r.L = append(r.L, Ite(c, a.L[i], b.L[i]))
		}
		return r
	case "unchanged":
		// unchanged(lvalue): value equals its value in the old state
		n := *env
		n.st = env.old
		a := fg.evalC(x.Args[0], env)
		b := fg.evalC(x.Args[0], &n)
		return &Val{T: tBool, L: []Term{fg.cValEq(a, b)}}
	}
	sf := fg.g.cs.Specs[id.Name]
	if sf == nil {
		panic(unsupported("unknown spec function " + id.Name))
	}
	var args []*Val
	for _, a := range x.Args {
		args = append(args, fg.evalC(a, env))
	}
	if len(args) != len(sf.Params) {
		panic(unsupported("arity mismatch calling " + id.Name))
	}
	if sf.Body != nil && !sf.Rec {
		inner := &CEnv{fg: fg, st: env.st, old: env.old, vars: map[string]*Val{}, noLocals: true, calleePkg: sf.PkgPath, depth: env.depth, bound: env.bound}
		if sf.PkgPath == "" {
			inner.calleePkg = "<spec>"
		}
		for i, p := range sf.Params {
			inner.vars[p.Name] = args[i]
		}
		return fg.evalC(sf.Body, inner)
	}
	// uninterpreted: function of the flattened argument leaves
	var flat []Term
	var sorts []Sort
	for _, a := range args {
		if a.Loc != nil {
			panic(unsupported("interior pointer passed to spec function"))
		}
		for _, l := range a.L {
			flat = append(flat, l)
			sorts = append(sorts, l.Sort)
		}
	}
	rs := SInt
	var rT types.Type = tInt
	if sf.Result == "bool" {
		rs = SBool
		rT = tBool
	} else if sf.Result != "int" && sf.Result != "" {
		// typed result (single-leaf types only: pointers, named ints): allows field selection on it
		pk := sf.PkgPath
		if pk == "" {
			pk = fnPkgPath(fg.fn)
		}
		if T := fg.g.resolveTypeString(sf.Result, pk); T != nil && len(layout(T)) == 1 {
			rT = T
			if layout(T)[0].Sort == SBool {
				rs = SBool
			}
		}
	}
	f := fg.declareFun("spec_"+sf.Name, sorts, rs)
	if len(flat) == 0 {
		return &Val{T: rT, L: []Term{{f, rs}}}
	}
	return &Val{T: rT, L: []Term{app(f, rs, flat...)}}
}

// cValEq: equality in contract expressions. Slice headers are compared componentwise (Go itself only
// allows comparison with nil).
func (fg *FnGen) cValEq(a, b *Val) Term {
	if _, isSlice := types.Unalias(a.T).Underlying().(*types.Slice); isSlice && a.Loc == nil && b.Loc == nil && len(a.L) == 4 && len(b.L) == 4 {
		return And(Eq(a.L[0], b.L[0]), Eq(a.L[1], b.L[1]), Eq(a.L[2], b.L[2]), Eq(a.L[3], b.L[3]))
	}
	return fg.valEq(a, b)
}

func (fg *FnGen) evalLockPath(e CExpr, env *CEnv) (string, Term) {
	l := fg.tryEvalLoc(e, env)
	if l != nil && !l.Elem {
		return "held:" + l.Prefix, l.Base
	}
	v := fg.evalC(e, env)
	T := derefType(v.T)
	if T == nil {
		panic(unsupported("not a mutex path: " + e.cstr()))
	}
	return "held:" + typeKey(T), v.one()
}

// evalMod evaluates one modifies entry to component-level frame entries.
func (fg *FnGen) evalMod(e CExpr, env *CEnv) []modEntry {
	// count(ev), held(m), elems(s), whole(T.f)
	if c, ok := e.(*CCall); ok {
		if id, ok := c.Fn.(*CIdent); ok {
			switch id.Name {
			case "global":
				comp := "gg:" + c.Args[0].cstr()
				fg.compSort(comp, SInt)
				return []modEntry{{comp: comp, whole: true, src: e.cstr()}}
			case "count":
				comp := "cnt:" + c.Args[0].cstr()
				fg.compSort(comp, SInt)
				return []modEntry{{comp: comp, whole: true, src: e.cstr()}}
			case "held":
				comp, idx := fg.evalLockPath(c.Args[0], env)
				fg.compSort(comp, ArrSort(SBool))
				return []modEntry{{comp: comp, base: idx, src: e.cstr()}}
			case "atomic":
				l := fg.evalLoc(c.Args[0], env)
				sort := SInt
				if n, ok := types.Unalias(l.T).(*types.Named); ok && n.Obj().Name() == "Bool" {
					sort = SBool
				}
				fg.compSort("A:"+l.Prefix, ArrSort(sort))
				return []modEntry{{comp: "A:" + l.Prefix, whole: true, src: e.cstr()}}
			case "allatomic":
				path := c.Args[0].cstr()
				pkgPath := env.calleePkg
				if pkgPath == "" || pkgPath == "<spec>" {
					pkgPath = fnPkgPath(fg.fn)
				}
				pn := ""
				if p := fg.g.allPkgs[pkgPath]; p != nil {
					pn = p.Name + "."
				}
				comp := "A:" + pn + path
				if _, ok := fg.compSorts[comp]; !ok {
					fg.compSort(comp, ArrSort(SBool))
				}
				return []modEntry{{comp: comp, whole: true, src: e.cstr()}}
			case "allof":
				// whole component of a (ghost) field: allof(T.f)
				path := c.Args[0].cstr()
				pkgPath := env.calleePkg
				if pkgPath == "" || pkgPath == "<spec>" {
					pkgPath = fnPkgPath(fg.fn)
				}
				pn := ""
				if p := fg.g.allPkgs[pkgPath]; p != nil {
					pn = p.Name + "."
				}
				k := strings.LastIndex(path, ".")
				comp := "H:" + pn + path
				for _, d := range fg.g.cs.Decls {
					if d.Kind == "ghostfield" && len(d.Args) >= 2 && d.Args[0] == path {
						comp = "H:" + pn + path[:k] + ".$" + path[k+1:]
						sort := ArrSort(SInt)
						if d.Args[1] == "bool" {
							sort = ArrSort(SBool)
						}
						fg.compSort(comp, sort)
					}
				}
				if !strings.Contains(comp, ".$") {
					// ordinary field: one component per leaf of the field's type
					if T := fg.g.resolveTypeString(path[:k], pkgPath); T != nil {
						if st, ok := types.Unalias(T).Underlying().(*types.Struct); ok {
							for i := 0; i < st.NumFields(); i++ {
								if st.Field(i).Name() != path[k+1:] {
									continue
								}
								var out []modEntry
								for _, leaf := range layout(st.Field(i).Type()) {
									fg.compSort(comp+leaf.Path, ArrSort(leaf.Sort))
									out = append(out, modEntry{comp: comp + leaf.Path, whole: true, src: e.cstr()})
								}
								return out
							}
						}
					}
					panic(unsupported("allof(): unknown field " + path))
				}
				return []modEntry{{comp: comp, whole: true, src: e.cstr()}}
			case "allmaps":
				// every map of the type of the argument (and of nested map element types): whole components
				v := fg.evalC(c.Args[0], env)
				var out []modEntry
				T := v.T
				for {
					mt, ok := types.Unalias(T).Underlying().(*types.Map)
					if !ok {
						break
					}
					mc := mapComp(mt)
					fg.compSort(mc+"!has", ArrSort(ArrSort(SBool)))
					fg.compSort(mc+"!len", ArrSort(SInt))
					out = append(out, modEntry{comp: mc + "!has", whole: true}, modEntry{comp: mc + "!len", whole: true})
					for _, leaf := range layout(mt.Elem()) {
						fg.compSort(mc+"!val"+leaf.Path, ArrSort(ArrSort(leaf.Sort)))
						out = append(out, modEntry{comp: mc + "!val" + leaf.Path, whole: true})
					}
					T = mt.Elem()
				}
				if len(out) == 0 {
					panic(unsupported("allmaps() of non-map"))
				}
				return out
			case "elems":
				v := fg.evalC(c.Args[0], env)
				st, ok := types.Unalias(v.T).Underlying().(*types.Slice)
				if !ok {
					panic(unsupported("elems() of non-slice"))
				}
				var out []modEntry
				for _, leaf := range layout(st.Elem()) {
					comp := "E:" + typeKey(st.Elem()) + leaf.Path
					fg.compSort(comp, ArrSort(ArrSort(leaf.Sort)))
					out = append(out, modEntry{comp: comp, elem: true, arr: v.L[0], src: e.cstr()})
				}
				return out
			case "mapof":
				v := fg.evalC(c.Args[0], env)
				mt, ok := types.Unalias(v.T).Underlying().(*types.Map)
				if !ok {
					panic(unsupported("mapof() of non-map"))
				}
				mc := mapComp(mt)
				out := []modEntry{{comp: mc + "!has", base: v.one()}, {comp: mc + "!len", base: v.one()}}
				fg.compSort(mc+"!has", ArrSort(ArrSort(SBool)))
				fg.compSort(mc+"!len", ArrSort(SInt))
				for _, leaf := range layout(mt.Elem()) {
					fg.compSort(mc+"!val"+leaf.Path, ArrSort(ArrSort(leaf.Sort)))
					out = append(out, modEntry{comp: mc + "!val" + leaf.Path, base: v.one()})
				}
				return out
			case "ghost":
				comp := "ghost:" + c.Args[0].cstr()
				return []modEntry{{comp: comp, whole: true}}
			}
		}
	}
	if id, ok := e.(*CIdent); ok && strings.HasPrefix(id.Name, "ghost_") {
		return []modEntry{{comp: "ghost:" + id.Name, whole: true}}
	}
	l := fg.evalLoc(e, env)
	var out []modEntry
	for _, leaf := range layout(l.T) {
		comp := fg.compName(l, leaf)
		if l.Elem {
			fg.compSort(comp, ArrSort(ArrSort(leaf.Sort)))
			idx := l.Idx
			out = append(out, modEntry{comp: comp, elem: true, arr: l.Arr, idx: &idx, src: e.cstr()})
		} else {
			fg.compSort(comp, ArrSort(leaf.Sort))
			out = append(out, modEntry{comp: comp, base: l.Base, src: e.cstr()})
		}
	}
	return out
}

// paramNeverReassigned: the parameter's spill cell (if any) is stored exactly once (the initial spill).
// isFreeVarName: a variable captured by reference is a memory cell; it is always read through the cell.
func (fg *FnGen) isFreeVarName(name string) bool {
	for _, fv := range fg.fn.FreeVars {
		if fv.Name() == name {
			return true
		}
	}
	return false
}

// paramReassigned: the function assigns a new value to the parameter (some binding of the name is not the parameter
// itself: a phi or a computed value; or the spilled cell is stored more than once).
func (fg *FnGen) paramReassigned(name string) bool {
	if !fg.paramNeverReassigned(name) {
		return true
	}
	for _, b := range fg.debugNames[name] {
		if b.addr {
			continue
		}
		switch x := b.v.(type) {
		case *ssa.Parameter, *ssa.FreeVar:
		case *ssa.UnOp:
			// a read of the parameter's spilled cell is not an assignment
			if al, ok := x.X.(*ssa.Alloc); ok && x.Op == token.MUL && al.Comment == name {
				continue
			}
			return true
		default:
			return true
		}
	}
	return false
}

func (fg *FnGen) paramNeverReassigned(name string) bool {
	if fg.paramStable == nil {
		fg.paramStable = map[string]bool{}
		for _, p := range fg.fn.Params {
			stable := true
			// find allocs initialised from this parameter
			if p.Referrers() != nil {
				for _, r := range *p.Referrers() {
					st, ok := r.(*ssa.Store)
					if !ok || st.Val != ssa.Value(p) {
						continue
					}
					al, ok := st.Addr.(*ssa.Alloc)
					if !ok {
						continue
					}
					n := 0
					if al.Referrers() != nil {
						for _, ar := range *al.Referrers() {
							if s2, ok := ar.(*ssa.Store); ok && s2.Addr == ssa.Value(al) {
								n++
							}
						}
					}
					if n != 1 {
						stable = false
					}
					// closures may also write the captured variable
					if al.Referrers() != nil {
						for _, ar := range *al.Referrers() {
							if mc, ok := ar.(*ssa.MakeClosure); ok {
								cf := mc.Fn.(*ssa.Function)
								for bi, b := range mc.Bindings {
									if b == ssa.Value(al) && bi < len(cf.FreeVars) {
										fv := cf.FreeVars[bi]
										if fv.Referrers() != nil {
											for _, fr := range *fv.Referrers() {
												if s3, ok := fr.(*ssa.Store); ok && s3.Addr == ssa.Value(fv) {
													stable = false
												}
											}
										}
									}
								}
							}
						}
					}
				}
			}
			fg.paramStable[p.Name()] = stable
		}
	}
	return fg.paramStable[name]
}
