#!/bin/sh
# Builds /verif/bin/govc from /verif/engine (vendored golang.org/x/tools) — offline.
set -e
cd "$(dirname "$0")/engine"
export PATH=/opt/veriftools/go1.26.8/bin:$PATH
export GOTOOLCHAIN=local GOPROXY=off GOSUMDB=off GOFLAGS=-mod=vendor CGO_ENABLED=0
mkdir -p ../bin
go build -o ../bin/govc .
echo "govc built"
