#!/bin/sh
# usage: ./check.sh <property id> [quick|thorough]
cd "$(dirname "$0")"
export PATH=/opt/veriftools/go1.26.8/bin:$PATH
export GOTOOLCHAIN=local GOPROXY=off GOSUMDB=off GOFLAGS= CGO_ENABLED=0
[ -x bin/govc ] || ./setup.sh >/dev/null
exec ./bin/govc check "$1" --tier "${2:-${VERIF_TIER:-quick}}"
