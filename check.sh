#!/bin/sh
# usage: ./check.sh <property id> [quick|thorough]
cd "$(dirname "$0")"
export PATH=/opt/veriftools/go1.26.8/bin:$PATH
export GOTOOLCHAIN=local GOPROXY=off GOSUMDB=off GOFLAGS= CGO_ENABLED=0
[ -x bin/govc ] || ./setup.sh >/dev/null
tier="${2:-${VERIF_TIER:-quick}}"
./bin/govc check "$1" --tier "$tier"
rc=$?
if [ "$tier" = thorough ] && [ $rc -eq 0 ]; then
  # thorough: the same obligations with three times the solver budget (the proof is the same proof), plus the
  # must-fail corpus of this property as an audit that its contracts still bind (never changes the verdict)
  python3 selftest/run.py --prop "$1" -j 8 --audit-evidence "evidence/$1.json" | grep "^SELFTEST\|^MISSED\|^FALSE-ALARM"
fi
exit $rc
