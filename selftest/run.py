#!/usr/bin/env python3
"""Self-test of the verifier: must-fail mutants (a property-breaking change must fail a named
obligation) and must-pass harmless edits (must stay green). Mutants are applied through a
go/packages overlay, /repo is never modified.

usage: run.py [--prop C05] [--name substr] [-j N]
"""
import json, os, re, subprocess, sys, tempfile, glob, concurrent.futures, time

VERIF = os.path.dirname(os.path.dirname(os.path.abspath(__file__)))
REPO = os.environ.get("VERIF_REPO", "/repo")

def load():
    ms = []
    for f in sorted(glob.glob(os.path.join(VERIF, "selftest", "mutants", "*.json"))):
        for m in json.load(open(f)):
            m["_file"] = f
            ms.append(m)
    return ms

def run_one(m):
    path = os.path.join(REPO, m["file"])
    src = open(path).read()
    if src.count(m["old"]) != 1:
        return m, "STALE", "pattern occurs %d times in %s" % (src.count(m["old"]), m["file"]), []
    mutated = src.replace(m["old"], m["new"])
    d = tempfile.mkdtemp(prefix="govc_mut_")
    mf = os.path.join(d, os.path.basename(path))
    open(mf, "w").write(mutated)
    ov = os.path.join(d, "overlay.json")
    json.dump({path: mf}, open(ov, "w"))
    env = dict(os.environ)
    env.update({"GOVC_OVERLAY": ov, "PATH": "/opt/veriftools/go1.26.8/bin:" + env["PATH"], "GOTOOLCHAIN": "local",
                "GOPROXY": "off", "GOSUMDB": "off", "GOFLAGS": "", "VERIF_WORK_SUFFIX": "_" + os.path.basename(d)})
    t0 = time.time()
    p = subprocess.run([os.path.join(VERIF, "bin", "govc"), "check", m["prop"], "--no-evidence", "--work", os.path.join(d, "work")],
                       cwd=VERIF, env=env, capture_output=True, text=True)
    out = p.stdout + p.stderr
    failed = re.findall(r"failed obligation (\S+)", out)
    subprocess.run(["rm", "-rf", d])
    kind = m.get("kind", "must-fail")
    if kind == "must-fail":
        exp = re.compile(m["expect"])
        hit = [f for f in failed if exp.search(f)]
        if p.returncode == 1 and hit:
            return m, "OK", "caught by %s (%.0fs)" % (hit[0], time.time() - t0), failed
        if p.returncode == 1:
            return m, "OK-OTHER", "caught, but by %s" % failed[:3], failed
        return m, "MISSED", "exit %d: %s" % (p.returncode, out.strip().splitlines()[-1:] ), failed
    else:
        if p.returncode == 0:
            return m, "OK", "stays green (%.0fs)" % (time.time() - t0), failed
        return m, "FALSE-ALARM", "exit %d failed=%s" % (p.returncode, failed[:3]), failed

def main():
    args = sys.argv[1:]
    prop = name = audit = None
    jobs = 4
    i = 0
    while i < len(args):
        if args[i] == "--prop": prop = args[i+1]; i += 2
        elif args[i] == "--name": name = args[i+1]; i += 2
        elif args[i] == "-j": jobs = int(args[i+1]); i += 2
        elif args[i] == "--audit-evidence": audit = args[i+1]; i += 2
        else: i += 1
    ms = [m for m in load() if (not prop or m["prop"] == prop) and (not name or name in m["name"])]
    bad = 0
    results = []
    with concurrent.futures.ThreadPoolExecutor(max_workers=jobs) as ex:
        for m, status, msg, failed in ex.map(run_one, ms):
            print("%-11s %-4s %-45s %s" % (status, m["prop"], m["name"], msg), flush=True)
            results.append({"name": m["name"], "prop": m["prop"], "kind": m.get("kind", "must-fail"), "status": status, "detail": msg})
            if status in ("MISSED", "FALSE-ALARM", "STALE"):
                bad += 1
    if audit:
        # thorough tier of a property check: the must-fail corpus of that property as a strength audit of its contracts.
        # Never changes the verdict of the check (a missed mutant is a weak contract, not a violated property; on a
        # changed tree some mutants do not apply any more: stale).
        summary = {"rule": "every must-fail mutant of this property (a deliberate property-breaking change, applied through an overlay) has to fail a named obligation; must-pass edits have to stay green",
                   "mutants": len(results),
                   "caught": sum(1 for r in results if r["status"] in ("OK", "OK-OTHER") and r["kind"] == "must-fail"),
                   "must_pass_green": sum(1 for r in results if r["status"] == "OK" and r["kind"] != "must-fail"),
                   "stale": [r["name"] for r in results if r["status"] == "STALE"],
                   "missed": [r["name"] for r in results if r["status"] == "MISSED"],
                   "false_alarms": [r["name"] for r in results if r["status"] == "FALSE-ALARM"]}
        try:
            ev = json.load(open(audit))
            ev.setdefault("coverage", {})["contract_strength_audit"] = summary
            json.dump(ev, open(audit, "w"), indent=1)
        except Exception as e:
            print("audit: cannot update evidence:", e)
        print("SELFTEST property=%s mutants=%d caught=%d stale=%d missed=%s false_alarms=%s" % (prop, summary["mutants"], summary["caught"], len(summary["stale"]), summary["missed"], summary["false_alarms"]))
        sys.exit(0)
    json.dump(results, open(os.path.join(VERIF, "selftest", "last_results.json"), "w"), indent=1)
    if not prop and not name:
        # every non-trusted contract must be verified by some check
        a = subprocess.run([sys.executable, os.path.join(VERIF, "tools", "audit_contracts.py")], capture_output=True, text=True)
        print(a.stdout.strip())
        if a.returncode != 0:
            bad += 1
    print("%d mutants, %d problems" % (len(ms), bad))
    sys.exit(1 if bad else 0)

if __name__ == "__main__":
    main()
