package resolve

// Demonstration of F9: Resolver.markTriggerInitialized looks the trigger up under r.mu, RELEASES r.mu
// and only then does trig.initialized.Store(true) + reporter.TriggerCountInc(1). Every removal path
// (UnsubscribeSubscription, removeClient, doneTriggerFromUpdater, shutdownResolver) runs under r.mu,
// reads trig.initialized and calls reporter.TriggerCountDec(1) only if it was true.
//
// If the last subscription of the trigger is removed between the unlocked lookup and the Store,
// the removal sees initialized == false (no Dec) and markTriggerInitialized then increments anyway:
// the reported trigger count is +1 forever although no trigger exists anymore.
//
// Only the public API of the Resolver is used (New, AsyncResolveGraphQLSubscription,
// UnsubscribeSubscription) plus a Reporter and a SubscriptionDataSource supplied by the test.

import (
	"context"
	"fmt"
	"net/http"
	"runtime"
	"sync"
	"sync/atomic"
	"testing"
	"time"

	"github.com/cespare/xxhash/v2"
)

// ---------------------------------------------------------------------------------------------
// helpers
// ---------------------------------------------------------------------------------------------

// verifF9Reporter tracks trigger count (Inc - Dec) and subscription count (Inc - Dec) atomically.
//
// The resolver invokes SubscriptionCountDec while holding r.mu (see UnsubscribeSubscription). When the
// gate is armed, a call with count == 0 (which only happens for an unsubscribe of an unknown id) parks
// inside the callback until the test resumes it. That lets the test keep r.mu held for a controlled
// amount of time, exactly what a slow metrics backend or ordinary lock contention does in production.
type verifF9Reporter struct {
	triggers      atomic.Int64
	subscriptions atomic.Int64
	triggerIncs   atomic.Int64
	triggerDecs   atomic.Int64

	gateArmed atomic.Bool
	held      chan struct{}
	resume    chan struct{}
}

func newVerifF9Reporter() *verifF9Reporter {
	return &verifF9Reporter{
		held:   make(chan struct{}),
		resume: make(chan struct{}),
	}
}

func (v *verifF9Reporter) SubscriptionUpdateSent() {}

func (v *verifF9Reporter) SubscriptionCountInc(count int) { v.subscriptions.Add(int64(count)) }

func (v *verifF9Reporter) SubscriptionCountDec(count int) {
	v.subscriptions.Add(-int64(count))
	if count == 0 && v.gateArmed.Load() {
		v.held <- struct{}{} // r.mu is held by the calling goroutine right now
		<-v.resume           // keep holding it until the test says so
	}
}

func (v *verifF9Reporter) TriggerCountInc(count int) {
	v.triggerIncs.Add(int64(count))
	v.triggers.Add(int64(count))
}

func (v *verifF9Reporter) TriggerCountDec(count int) {
	v.triggerDecs.Add(int64(count))
	v.triggers.Add(-int64(count))
}

// verifF9Writer is a no-op SubscriptionResponseWriter.
type verifF9Writer struct{}

func (verifF9Writer) Write(p []byte) (int, error) { return len(p), nil }
func (verifF9Writer) Flush() error                { return nil }
func (verifF9Writer) Complete()                   {}
func (verifF9Writer) Heartbeat() error            { return nil }
func (verifF9Writer) Error([]byte)                {}

var _ SubscriptionResponseWriter = verifF9Writer{}

// verifF9Source is a SubscriptionDataSource whose Start succeeds (returns nil). Right before returning
// it runs beforeReturn, so the test knows (and can delay) the moment the resolver's start goroutine
// is about to call markTriggerInitialized.
type verifF9Source struct {
	beforeReturn func(input []byte)
	starts       atomic.Int64
}

func (s *verifF9Source) HashTriggerInput(input []byte, xxh *xxhash.Digest) error {
	_, err := xxh.Write(input)
	return err
}

func (s *verifF9Source) Start(_ *Context, _ http.Header, input []byte, _ SubscriptionUpdater) error {
	if s.beforeReturn != nil {
		s.beforeReturn(input)
	}
	s.starts.Add(1)
	return nil
}

// verifF9Plan builds a subscription plan whose (static) trigger input is unique per n, i.e. every plan
// creates a NEW trigger.
func verifF9Plan(src SubscriptionDataSource, n int64) *GraphQLSubscription {
	return &GraphQLSubscription{
		Trigger: GraphQLSubscriptionTrigger{
			Source: src,
			InputTemplate: InputTemplate{
				Segments: []TemplateSegment{{
					SegmentType: StaticSegmentType,
					Data:        []byte(fmt.Sprintf(`{"verifF9":%d}`, n)),
				}},
			},
			PostProcessing: PostProcessingConfiguration{
				SelectResponseDataPath:   []string{"data"},
				SelectResponseErrorsPath: []string{"errors"},
			},
		},
		Response: &GraphQLResponse{
			Data: &Object{
				Fields: []*Field{{
					Name:  []byte("counter"),
					Value: &Integer{Path: []string{"counter"}},
				}},
			},
		},
	}
}

func newVerifF9Resolver(t *testing.T, rep Reporter) *Resolver {
	t.Helper()
	ctx, cancel := context.WithCancel(context.Background())
	t.Cleanup(cancel)
	return New(ctx, ResolverOptions{
		MaxConcurrency:                1024,
		AsyncErrorWriter:              &FakeErrorWriter{},
		SubscriptionHeartbeatInterval: time.Hour, // keep the heartbeat loop out of the picture
		Reporter:                      rep,
	})
}

// verifF9AssertQuiescentZero waits until all goroutines created during the test are gone (so every start
// goroutine has finished markTriggerInitialized) and the subscription count is zero, then asserts that
// the trigger count is zero and stays zero.
func verifF9AssertQuiescentZero(t *testing.T, r *Resolver, rep *verifF9Reporter, baselineGoroutines int) {
	t.Helper()

	deadline := time.Now().Add(3 * time.Second)
	for time.Now().Before(deadline) {
		if rep.subscriptions.Load() == 0 && runtime.NumGoroutine() <= baselineGoroutines {
			break
		}
		time.Sleep(2 * time.Millisecond)
	}
	if got := rep.subscriptions.Load(); got != 0 {
		t.Fatalf("setup problem: subscription count did not return to zero: %d", got)
	}
	// Give a straggling start goroutine (if the NumGoroutine heuristic was fooled) time to finish.
	time.Sleep(100 * time.Millisecond)

	r.mu.Lock()
	liveTriggers, liveSubs := len(r.triggers), len(r.subscriptionsByID)
	r.mu.Unlock()
	if liveTriggers != 0 || liveSubs != 0 {
		t.Fatalf("setup problem: resolver still has %d triggers / %d subscriptions", liveTriggers, liveSubs)
	}

	if got := rep.triggers.Load(); got != 0 {
		t.Fatalf("F9: reported trigger count leaked: TriggerCountInc=%d TriggerCountDec=%d => count=%d, "+
			"but the resolver has 0 triggers and 0 subscriptions (reported subscription count=%d)",
			rep.triggerIncs.Load(), rep.triggerDecs.Load(), got, rep.subscriptions.Load())
	}
}

// ---------------------------------------------------------------------------------------------
// Test 1: steer the scheduler into the window (public API only)
// ---------------------------------------------------------------------------------------------

// TestVerifF9_TriggerCountLeak_UnsubscribeQueuedBehindMarkInitialized reproduces the interleaving
//
//	start goroutine:  getTrigger(): Lock, lookup -> found, Unlock
//	unsubscribe:                                                  Lock, remove last sub, delete trigger,
//	                                                              initialized.Load()==false -> no Dec, Unlock
//	start goroutine:  initialized.Store(true); TriggerCountInc(1)           <-- leaked
//
// without touching any resolver internals. It only relies on documented sync.Mutex behaviour: when a
// waiter has been starved for >1ms the mutex switches to starvation mode, in which Unlock hands the
// mutex (and the CPU) directly to the waiter at the front of the FIFO queue. So if r.mu is contended
// and an UnsubscribeSubscription is queued directly behind markTriggerInitialized's getTrigger, the
// Unlock inside getTrigger runs the whole unsubscribe before the start goroutine reaches the Store.
//
// r.mu is kept busy through the public API: Reporter.SubscriptionCountDec is called with r.mu held, and
// the test's reporter parks in that callback (for an unsubscribe of an unknown id) until resumed.
func TestVerifF9_TriggerCountLeak_UnsubscribeQueuedBehindMarkInitialized(t *testing.T) {
	const iterations = 20

	rep := newVerifF9Reporter()
	r := newVerifF9Resolver(t, rep)

	started := make(chan struct{})
	release := make(chan struct{})
	src := &verifF9Source{
		beforeReturn: func([]byte) {
			started <- struct{}{}
			<-release
		},
	}

	time.Sleep(10 * time.Millisecond)
	baseline := runtime.NumGoroutine()

	bogus := SubscriptionIdentifier{ConnectionID: -1, SubscriptionID: -1}

	for i := 0; i < iterations; i++ {
		id := SubscriptionIdentifier{ConnectionID: ConnectionID(1000 + i), SubscriptionID: int64(i)}
		plan := verifF9Plan(src, int64(i))

		// 1. Subscribe. The resolver's start goroutine calls Source.Start, which parks right before
		//    returning nil.
		if err := r.AsyncResolveGraphQLSubscription(NewContext(context.Background()), plan, verifF9Writer{}, id); err != nil {
			t.Fatalf("subscribe: %v", err)
		}
		<-started

		// 2. A "holder" goroutine keeps r.mu busy twice in a row (two unsubscribes of an unknown id, the
		//    reporter callback parks while r.mu is held).
		rep.gateArmed.Store(true)
		holderDone := make(chan struct{})
		go func() {
			defer close(holderDone)
			_ = r.UnsubscribeSubscription(bogus)
			_ = r.UnsubscribeSubscription(bogus)
		}()
		<-rep.held // r.mu held (1st time)

		// 3. Let Start return: the start goroutine calls markTriggerInitialized -> getTrigger and queues
		//    on r.mu.
		release <- struct{}{}
		time.Sleep(500 * time.Microsecond)

		// 4. The client unsubscribes: queues on r.mu right behind the start goroutine.
		unsubDone := make(chan struct{})
		go func() {
			defer close(unsubDone)
			_ = r.UnsubscribeSubscription(id)
		}()
		time.Sleep(2 * time.Millisecond) // both waiters are now starved (>1ms)

		// 5. Holder releases r.mu and immediately takes it again. The woken start goroutine finds the
		//    mutex locked again after having waited >1ms and flips it into starvation mode.
		rep.resume <- struct{}{}
		<-rep.held // r.mu held (2nd time)
		rep.gateArmed.Store(false)
		time.Sleep(500 * time.Microsecond)

		// 6. Holder releases r.mu for good: FIFO hand-off to getTrigger (start goroutine), whose Unlock
		//    hands off to the queued UnsubscribeSubscription before the Store happens.
		rep.resume <- struct{}{}

		<-holderDone
		<-unsubDone
	}

	verifF9AssertQuiescentZero(t, r, rep, baseline)
}

// ---------------------------------------------------------------------------------------------
// Test 2: plain stress, no steering at all
// ---------------------------------------------------------------------------------------------

// TestVerifF9_TriggerCountLeak_Stress subscribes and unsubscribes as fast as possible from many workers;
// the unsubscribe is issued the moment Source.Start is about to return. Nothing else is orchestrated, so
// hitting the few-nanosecond window depends on preemption/contention luck.
func TestVerifF9_TriggerCountLeak_Stress(t *testing.T) {
	rep := newVerifF9Reporter()
	r := newVerifF9Resolver(t, rep)

	workers := runtime.GOMAXPROCS(0) * 4
	if workers < 8 {
		workers = 8
	}

	// one flag per worker, set by Start right before it returns
	flags := make([]atomic.Int64, workers)
	src := &verifF9Source{}
	src.beforeReturn = func(input []byte) {
		var w, n int64
		_, _ = fmt.Sscanf(string(input), `{"verifF9":%d,"w":%d}`, &n, &w)
		flags[w].Store(n)
	}

	time.Sleep(10 * time.Millisecond)
	baseline := runtime.NumGoroutine()

	stop := time.Now().Add(3 * time.Second)
	var iterations atomic.Int64
	var wg sync.WaitGroup
	for w := 0; w < workers; w++ {
		wg.Add(1)
		go func(w int) {
			defer wg.Done()
			for n := int64(1); time.Now().Before(stop); n++ {
				id := SubscriptionIdentifier{ConnectionID: ConnectionID(w + 1), SubscriptionID: n}
				plan := verifF9Plan(src, n)
				plan.Trigger.InputTemplate.Segments[0].Data = []byte(fmt.Sprintf(`{"verifF9":%d,"w":%d}`, n, w))
				if err := r.AsyncResolveGraphQLSubscription(NewContext(context.Background()), plan, verifF9Writer{}, id); err != nil {
					t.Errorf("subscribe: %v", err)
					return
				}
				for flags[w].Load() != n {
					runtime.Gosched()
				}
				_ = r.UnsubscribeSubscription(id)
				iterations.Add(1)
			}
		}(w)
	}
	wg.Wait()
	t.Logf("stress: %d subscribe/unsubscribe iterations over %d workers", iterations.Load(), workers)

	verifF9AssertQuiescentZero(t, r, rep, baseline)
}
