// Demonstration for finding 6 of hunt H4.
// Copy this file to execution/engine/ (package engine of the module github.com/wundergraph/graphql-go-tools/execution)
// and run:  cd execution && GOFLAGS= go test -vet=off -count=1 -run 'TestHuntH4_6_' ./engine/
//
// The file is self-contained: it brings its own in-memory subgraphs (they really execute the
// subgraph queries sent by the gateway), a frame recording writer and a client-side
// reconstruction of the incremental stream. All helper names carry the prefix hh6.

package engine

// hh6 harness: in-memory subgraphs that really execute the subgraph queries the
// gateway sends, a frame-recording writer, and a reconstruction of the incremental stream.

import (
	"bytes"
	"context"
	"encoding/json"
	"fmt"
	"io"
	"net/http"
	"reflect"
	"regexp"
	"sort"
	"strings"
	"sync"
	"testing"
	"time"

	"github.com/jensneuse/abstractlogger"
	"github.com/stretchr/testify/require"

	"github.com/wundergraph/graphql-go-tools/execution/graphql"
	"github.com/wundergraph/graphql-go-tools/v2/pkg/ast"
	"github.com/wundergraph/graphql-go-tools/v2/pkg/astparser"
	"github.com/wundergraph/graphql-go-tools/v2/pkg/engine/datasource/graphql_datasource"
	"github.com/wundergraph/graphql-go-tools/v2/pkg/engine/plan"
	"github.com/wundergraph/graphql-go-tools/v2/pkg/engine/resolve"
)

// ---------- in-memory subgraph ----------

type hh6Obj = map[string]any

// hh6NullErr as a field value: the subgraph returns null for the field and reports an error with the path.
type hh6NullErr string

type hh6Fault struct {
	status   int    // http status (0 = 200)
	body     string // raw body to send instead of the computed one
	useBody  bool
	netError bool // transport error
}

type hh6Req struct {
	host string
	body string
}

type hh6Sub struct {
	host     string
	sdl      string
	root     hh6Obj
	entities map[string]func(rep hh6Obj) any
	abstract map[string][]string
	meta     *plan.DataSourceMetadata
}

type hh6Env struct {
	schema string
	subs   []*hh6Sub

	mu       sync.Mutex
	requests []hh6Req
	// fault decides per request (called under mu, idx = global request index)
	fault func(idx int, r hh6Req) *hh6Fault
	// delay decides how long a request is held before answering
	delay func(idx int, r hh6Req) time.Duration
	// validateRequired enables ValidateRequiredExternalFields in planner and resolver
	validateRequired bool
}

type hh6OMap struct {
	keys []string
	vals map[string]any
}

func (o *hh6OMap) set(k string, v any) {
	if o.vals == nil {
		o.vals = map[string]any{}
	}
	if old, ok := o.vals[k]; ok {
		o.vals[k] = hh6MergeOut(old, v)
		return
	}
	o.keys = append(o.keys, k)
	o.vals[k] = v
}

func hh6MergeOut(a, b any) any {
	ao, aok := a.(*hh6OMap)
	bo, bok := b.(*hh6OMap)
	if aok && bok {
		for _, k := range bo.keys {
			ao.set(k, bo.vals[k])
		}
		return ao
	}
	al, aok := a.([]any)
	bl, bok := b.([]any)
	if aok && bok && len(al) == len(bl) {
		for i := range al {
			al[i] = hh6MergeOut(al[i], bl[i])
		}
		return al
	}
	return a
}

func (o *hh6OMap) MarshalJSON() ([]byte, error) {
	buf := &bytes.Buffer{}
	buf.WriteByte('{')
	for i, k := range o.keys {
		if i > 0 {
			buf.WriteByte(',')
		}
		kb, _ := json.Marshal(k)
		buf.Write(kb)
		buf.WriteByte(':')
		vb, err := json.Marshal(o.vals[k])
		if err != nil {
			return nil, err
		}
		buf.Write(vb)
	}
	buf.WriteByte('}')
	return buf.Bytes(), nil
}

type hh6Exec struct {
	sub  *hh6Sub
	doc  *ast.Document
	vars map[string]any
	errs []any
}

func (e *hh6Exec) typeMatches(cond string, obj hh6Obj) bool {
	tn, _ := obj["__typename"].(string)
	if cond == "" || cond == tn {
		return true
	}
	for _, c := range e.sub.abstract[cond] {
		if c == tn {
			return true
		}
	}
	return false
}

func (e *hh6Exec) value(v any, fieldRef int, path []any) any {
	switch x := v.(type) {
	case nil:
		return nil
	case hh6NullErr:
		e.errs = append(e.errs, map[string]any{"message": string(x), "path": append([]any{}, path...)})
		return nil
	case func() any:
		return e.value(x(), fieldRef, path)
	case hh6Obj:
		if !e.doc.FieldHasSelections(fieldRef) {
			return nil
		}
		out := &hh6OMap{}
		e.selSet(e.doc.Fields[fieldRef].SelectionSet, x, out, path)
		return out
	case []any:
		res := make([]any, len(x))
		for i := range x {
			res[i] = e.value(x[i], fieldRef, append(path, i))
		}
		return res
	default:
		return v
	}
}

func (e *hh6Exec) selSet(ref int, obj hh6Obj, out *hh6OMap, path []any) {
	for _, selRef := range e.doc.SelectionSets[ref].SelectionRefs {
		sel := e.doc.Selections[selRef]
		switch sel.Kind {
		case ast.SelectionKindField:
			name := e.doc.FieldNameString(sel.Ref)
			key := e.doc.FieldAliasOrNameString(sel.Ref)
			if name == "__typename" {
				out.set(key, obj["__typename"])
				continue
			}
			if name == "_entities" {
				reps, _ := e.vars["representations"].([]any)
				res := make([]any, len(reps))
				for i, r := range reps {
					rep, _ := r.(map[string]any)
					tn, _ := rep["__typename"].(string)
					var ent any
					if f, ok := e.sub.entities[tn]; ok {
						ent = f(rep)
					}
					res[i] = e.value(ent, sel.Ref, append(path, key, i))
				}
				out.set(key, res)
				continue
			}
			v, ok := obj[name]
			if !ok {
				e.errs = append(e.errs, map[string]any{"message": fmt.Sprintf("mock %s: no data for field %s.%s", e.sub.host, obj["__typename"], name)})
			}
			out.set(key, e.value(v, sel.Ref, append(path, key)))
		case ast.SelectionKindInlineFragment:
			cond := e.doc.InlineFragmentTypeConditionNameString(sel.Ref)
			if !e.typeMatches(cond, obj) {
				continue
			}
			e.selSet(e.doc.InlineFragments[sel.Ref].SelectionSet, obj, out, path)
		}
	}
}

func (s *hh6Sub) execute(body string) (string, error) {
	var req struct {
		Query     string         `json:"query"`
		Variables map[string]any `json:"variables"`
	}
	if err := json.Unmarshal([]byte(body), &req); err != nil {
		return "", err
	}
	doc, report := astparser.ParseGraphqlDocumentString(req.Query)
	if report.HasErrors() {
		return "", fmt.Errorf("mock %s cannot parse %q: %s", s.host, req.Query, report.Error())
	}
	e := &hh6Exec{sub: s, doc: &doc, vars: req.Variables}
	out := &hh6OMap{}
	for _, n := range doc.RootNodes {
		if n.Kind != ast.NodeKindOperationDefinition {
			continue
		}
		root := hh6Obj{"__typename": "Query"}
		for k, v := range s.root {
			root[k] = v
		}
		e.selSet(doc.OperationDefinitions[n.Ref].SelectionSet, root, out, nil)
	}
	resp := &hh6OMap{}
	if len(e.errs) > 0 {
		resp.set("errors", e.errs)
	}
	resp.set("data", out)
	b, err := json.Marshal(resp)
	return string(b), err
}

type hh6RT struct {
	env *hh6Env
	sub *hh6Sub
}

func (rt *hh6RT) RoundTrip(req *http.Request) (*http.Response, error) {
	var body []byte
	if req.Body != nil {
		body, _ = io.ReadAll(req.Body)
		req.Body.Close()
	}
	r := hh6Req{host: rt.sub.host, body: string(body)}
	rt.env.mu.Lock()
	idx := len(rt.env.requests)
	rt.env.requests = append(rt.env.requests, r)
	var fault *hh6Fault
	if rt.env.fault != nil {
		fault = rt.env.fault(idx, r)
	}
	var d time.Duration
	if rt.env.delay != nil {
		d = rt.env.delay(idx, r)
	}
	rt.env.mu.Unlock()
	if d > 0 {
		select {
		case <-time.After(d):
		case <-req.Context().Done():
			return nil, req.Context().Err()
		}
	}
	if fault != nil && fault.netError {
		return nil, fmt.Errorf("mock %s: connection refused", rt.sub.host)
	}
	status := 200
	var out string
	if fault != nil && fault.useBody {
		out = fault.body
	} else {
		var err error
		out, err = rt.sub.execute(string(body))
		if err != nil {
			return &http.Response{StatusCode: 400, Body: io.NopCloser(strings.NewReader(err.Error()))}, nil
		}
	}
	if fault != nil && fault.status != 0 {
		status = fault.status
	}
	return &http.Response{StatusCode: status, Body: io.NopCloser(strings.NewReader(out)), Header: http.Header{"Content-Type": []string{"application/json"}}}, nil
}

// ---------- frame recording writer ----------

type hh6Writer struct {
	mu        sync.Mutex
	buf       bytes.Buffer
	frames    []string
	completes int
	events    []string
}

func (w *hh6Writer) Write(p []byte) (int, error) {
	w.mu.Lock()
	defer w.mu.Unlock()
	if w.completes > 0 {
		w.events = append(w.events, "write after complete")
	}
	return w.buf.Write(p)
}
func (w *hh6Writer) Flush() error {
	w.mu.Lock()
	defer w.mu.Unlock()
	if w.completes > 0 {
		w.events = append(w.events, "flush after complete")
	}
	w.frames = append(w.frames, w.buf.String())
	w.buf.Reset()
	return nil
}
func (w *hh6Writer) Complete() {
	w.mu.Lock()
	defer w.mu.Unlock()
	w.completes++
}
func (w *hh6Writer) Heartbeat() error { return nil }
func (w *hh6Writer) Error(data []byte) {
	w.mu.Lock()
	defer w.mu.Unlock()
	w.events = append(w.events, "error: "+string(data))
}

// ---------- running ----------

type hh6Result struct {
	frames   []string // flushed frames
	rest     string   // unflushed remainder (synchronous responses)
	err      error
	requests []hh6Req
	events   []string
	complete int
}

func (e *hh6Env) newEngine(t *testing.T, ctx context.Context) *ExecutionEngine {
	t.Helper()
	schema, err := graphql.NewSchemaFromString(e.schema)
	require.NoError(t, err)
	var dss []plan.DataSource
	for i, s := range e.subs {
		client := &http.Client{Transport: &hh6RT{env: e, sub: s}}
		factory, err := graphql_datasource.NewFactory(context.Background(), client, graphql_datasource.NewGraphQLSubscriptionClient(context.Background(),
			graphql_datasource.WithUpgradeClient(client), graphql_datasource.WithStreamingClient(client)))
		require.NoError(t, err)
		sc, err := graphql_datasource.NewSchemaConfiguration(s.sdl, &graphql_datasource.FederationConfiguration{Enabled: true, ServiceSDL: s.sdl})
		require.NoError(t, err)
		cfg, err := graphql_datasource.NewConfiguration(graphql_datasource.ConfigurationInput{
			Fetch:               &graphql_datasource.FetchConfiguration{URL: "https://" + s.host + "/", Method: "POST"},
			SchemaConfiguration: sc,
		})
		require.NoError(t, err)
		ds, err := plan.NewDataSourceConfigurationWithName[graphql_datasource.Configuration](fmt.Sprintf("id-%d", i+1), s.host, factory, s.meta, cfg)
		require.NoError(t, err)
		dss = append(dss, ds)
	}
	engineConf := NewConfiguration(schema)
	engineConf.SetDataSources(dss)
	engineConf.plannerConfig.ValidateRequiredExternalFields = e.validateRequired
	engineConf.plannerConfig.BuildFetchReasons = e.validateRequired
	engine, err := NewExecutionEngine(ctx, abstractlogger.Noop{}, engineConf, resolve.ResolverOptions{MaxConcurrency: 1024, ValidateRequiredExternalFields: e.validateRequired})
	require.NoError(t, err)
	return engine
}

func (e *hh6Env) run(t *testing.T, query string, variables string) hh6Result {
	t.Helper()
	ctx, cancel := context.WithCancel(context.Background())
	defer cancel()
	engine := e.newEngine(t, ctx)
	return e.runOn(t, engine, query, variables)
}

func (e *hh6Env) runOn(t *testing.T, engine *ExecutionEngine, query string, variables string) hh6Result {
	t.Helper()
	e.mu.Lock()
	e.requests = nil
	e.mu.Unlock()
	op := graphql.Request{Query: query}
	if variables != "" {
		op.Variables = json.RawMessage(variables)
	}
	w := &hh6Writer{}
	done := make(chan error, 1)
	go func() {
		defer func() {
			if r := recover(); r != nil {
				done <- fmt.Errorf("PANIC: %v", r)
			}
		}()
		done <- engine.Execute(context.Background(), &op, w)
	}()
	var err error
	select {
	case err = <-done:
	case <-time.After(20 * time.Second):
		err = fmt.Errorf("TIMEOUT: Execute did not return within 20s")
	}
	w.mu.Lock()
	defer w.mu.Unlock()
	e.mu.Lock()
	defer e.mu.Unlock()
	return hh6Result{
		frames:   append([]string{}, w.frames...),
		rest:     w.buf.String(),
		err:      err,
		requests: append([]hh6Req{}, e.requests...),
		events:   append([]string{}, w.events...),
		complete: w.completes,
	}
}

// ---------- reconstruction of the incremental stream ----------

type hh6Recon struct {
	data       any
	errors     []any
	violations []string
}

func hh6DeepMerge(dst, src any) any {
	d, dok := dst.(map[string]any)
	s, sok := src.(map[string]any)
	if dok && sok {
		for k, v := range s {
			if old, ok := d[k]; ok {
				d[k] = hh6DeepMerge(old, v)
			} else {
				d[k] = v
			}
		}
		return d
	}
	dl, dok := dst.([]any)
	sl, sok := src.([]any)
	if dok && sok && len(dl) == len(sl) {
		for i := range dl {
			dl[i] = hh6DeepMerge(dl[i], sl[i])
		}
		return dl
	}
	return src
}

func hh6Reconstruct(frames []string) hh6Recon {
	var rc hh6Recon
	viol := func(f string, a ...any) { rc.violations = append(rc.violations, fmt.Sprintf(f, a...)) }
	if len(frames) == 0 {
		viol("no frames")
		return rc
	}
	pending := map[string][]any{}
	completed := map[string]int{}
	for i, fr := range frames {
		var m map[string]any
		dec := json.NewDecoder(strings.NewReader(fr))
		dec.UseNumber()
		if err := dec.Decode(&m); err != nil {
			viol("frame %d is not one JSON object: %v: %s", i, err, fr)
			continue
		}
		if dec.More() {
			viol("frame %d has trailing content: %s", i, fr)
		}
		hasNext, hasHasNext := m["hasNext"].(bool)
		if !hasHasNext {
			viol("frame %d has no hasNext", i)
		}
		if i < len(frames)-1 && !hasNext {
			viol("frame %d of %d has hasNext:false but is not last", i, len(frames))
		}
		if i == len(frames)-1 && hasNext {
			viol("last frame %d has hasNext:true", i)
		}
		if i == 0 {
			rc.data = m["data"]
			if es, ok := m["errors"].([]any); ok {
				rc.errors = append(rc.errors, es...)
			}
		} else if _, ok := m["data"]; ok {
			viol("frame %d has top-level data", i)
		}
		if ps, ok := m["pending"].([]any); ok {
			for _, p := range ps {
				pm := p.(map[string]any)
				id, _ := pm["id"].(string)
				if _, dup := pending[id]; dup {
					viol("frame %d: id %s announced twice", i, id)
				}
				path, _ := pm["path"].([]any)
				pending[id] = path
			}
		}
		if incs, ok := m["incremental"].([]any); ok {
			for _, inc := range incs {
				im := inc.(map[string]any)
				id, _ := im["id"].(string)
				base, ok := pending[id]
				if !ok {
					viol("frame %d: incremental for unannounced id %s", i, id)
					continue
				}
				if completed[id] > 0 {
					viol("frame %d: incremental for already completed id %s", i, id)
				}
				if es, ok := im["errors"].([]any); ok {
					rc.errors = append(rc.errors, es...)
				}
				full := append([]any{}, base...)
				if sp, ok := im["subPath"].([]any); ok {
					full = append(full, sp...)
				}
				// navigate
				var cur any = rc.data
				okNav := true
				for _, seg := range full {
					switch s := seg.(type) {
					case string:
						mm, ok := cur.(map[string]any)
						if !ok {
							okNav = false
						} else {
							cur, ok = mm[s]
							if !ok {
								okNav = false
							}
						}
					case json.Number:
						ll, ok := cur.([]any)
						n, _ := s.Int64()
						if !ok || int(n) >= len(ll) {
							okNav = false
						} else {
							cur = ll[n]
						}
					default:
						okNav = false
					}
					if !okNav {
						break
					}
				}
				target, isObj := cur.(map[string]any)
				if !okNav || !isObj {
					viol("frame %d: incremental id %s path %v does not address an object in the data so far", i, id, full)
					continue
				}
				hh6DeepMerge(target, im["data"])
			}
		}
		if cs, ok := m["completed"].([]any); ok {
			for _, c := range cs {
				cm := c.(map[string]any)
				id, _ := cm["id"].(string)
				if _, ok := pending[id]; !ok {
					viol("frame %d: completed unannounced id %s", i, id)
				}
				completed[id]++
				if completed[id] > 1 {
					viol("frame %d: id %s completed twice", i, id)
				}
				if es, ok := cm["errors"].([]any); ok {
					rc.errors = append(rc.errors, es...)
				}
			}
		}
	}
	var ids []string
	for id := range pending {
		ids = append(ids, id)
	}
	sort.Strings(ids)
	for _, id := range ids {
		if completed[id] == 0 {
			viol("id %s announced but never completed", id)
		}
	}
	return rc
}

var hh6DeferRe = regexp.MustCompile(`@defer(\s*\([^)]*\))?`)

func hh6StripDefer(q string) string { return hh6DeferRe.ReplaceAllString(q, "") }

func hh6Parse(t *testing.T, s string) map[string]any {
	t.Helper()
	var m map[string]any
	dec := json.NewDecoder(strings.NewReader(s))
	dec.UseNumber()
	require.NoError(t, dec.Decode(&m), "not JSON: %q", s)
	return m
}

func hh6JSON(v any) string {
	b, _ := json.Marshal(v)
	return string(b)
}

// hh6CheckDefer runs q with and without @defer and returns a list of problems.
func (e *hh6Env) checkDefer(t *testing.T, q, vars string) (problems []string, deferred hh6Result) {
	t.Helper()
	plain := e.run(t, hh6StripDefer(q), vars)
	if plain.err != nil {
		return []string{"plain query failed: " + plain.err.Error()}, plain
	}
	plainOut := plain.rest
	if len(plain.frames) > 0 {
		plainOut = plain.frames[0]
	}
	pm := hh6Parse(t, plainOut)
	deferred = e.run(t, q, vars)
	if deferred.err != nil {
		problems = append(problems, "deferred query failed: "+deferred.err.Error())
		return
	}
	if len(deferred.frames) == 0 {
		// not a deferred plan
		dm := hh6Parse(t, deferred.rest)
		if !reflect.DeepEqual(dm["data"], pm["data"]) {
			problems = append(problems, fmt.Sprintf("sync data differs: %s vs plain %s", deferred.rest, plainOut))
		}
		return
	}
	if deferred.rest != "" {
		problems = append(problems, "unflushed remainder: "+deferred.rest)
	}
	if deferred.complete != 1 {
		problems = append(problems, fmt.Sprintf("Complete called %d times", deferred.complete))
	}
	problems = append(problems, deferred.events...)
	rc := hh6Reconstruct(deferred.frames)
	problems = append(problems, rc.violations...)
	if !reflect.DeepEqual(rc.data, pm["data"]) {
		problems = append(problems, fmt.Sprintf("reconstructed data differs:\n  reconstructed: %s\n  plain:         %s", hh6JSON(rc.data), hh6JSON(pm["data"])))
	}
	if pe, ok := pm["errors"]; ok && len(rc.errors) == 0 {
		problems = append(problems, fmt.Sprintf("plain has errors %s, deferred none", hh6JSON(pe)))
	}
	if _, ok := pm["errors"]; !ok && len(rc.errors) > 0 {
		problems = append(problems, fmt.Sprintf("deferred has errors %s, plain none", hh6JSON(rc.errors)))
	}
	return
}

// ---------- finding 6 ----------

func hh6Scenario() *hh6Env {
	schema := `
type Query { user: User users: [User!]! }
type User { id: ID! name: String! billing: Billing account: Account }
type Billing { plan: String! }
type Account { kind: String! }
`
	s1 := `
type Query { user: User users: [User!]! }
type User @key(fields: "id") { id: ID! name: String! account: Account @requires(fields: "billing { plan }") billing: Billing @external }
type Billing { plan: String! @external }
type Account { kind: String! }
`
	s2 := `
type User @key(fields: "id") { id: ID! billing: Billing }
type Billing { plan: String! }
`
	names := map[string]string{"1": "Ada", "2": "Bob", "3": "Cy"}
	mk := func(id string) hh6Obj { return hh6Obj{"__typename": "User", "id": id, "name": names[id]} }
	sub1 := &hh6Sub{
		host: "s1", sdl: s1,
		root: hh6Obj{"user": mk("2"), "users": []any{mk("1"), mk("2"), mk("3")}},
		entities: map[string]func(rep hh6Obj) any{
			"User": func(rep hh6Obj) any {
				id := rep["id"].(string)
				u := mk(id)
				kind := "free"
				if b, ok := rep["billing"].(map[string]any); ok {
					if p, ok := b["plan"].(string); ok {
						kind = "paid-" + p
					}
				}
				u["account"] = hh6Obj{"__typename": "Account", "kind": kind}
				return u
			},
		},
		meta: &plan.DataSourceMetadata{
			RootNodes: []plan.TypeField{
				{TypeName: "Query", FieldNames: []string{"user", "users"}},
				{TypeName: "User", FieldNames: []string{"id", "name", "account"}, ExternalFieldNames: []string{"billing"}},
			},
			ChildNodes: []plan.TypeField{
				{TypeName: "Account", FieldNames: []string{"kind"}},
				{TypeName: "Billing", ExternalFieldNames: []string{"plan"}},
			},
			FederationMetaData: plan.FederationMetaData{
				Keys:     plan.FederationFieldConfigurations{{TypeName: "User", SelectionSet: "id"}},
				Requires: plan.FederationFieldConfigurations{{TypeName: "User", FieldName: "account", SelectionSet: "billing { plan }"}},
			},
		},
	}
	sub2 := &hh6Sub{
		host: "s2", sdl: s2, root: hh6Obj{},
		entities: map[string]func(rep hh6Obj) any{
			// the billing of user 2 cannot be resolved: null plus an error with the path ["_entities",i,"billing"]
			"User": func(rep hh6Obj) any {
				id := rep["id"].(string)
				if id == "2" {
					return hh6Obj{"__typename": "User", "id": id, "billing": hh6NullErr("billing unavailable")}
				}
				return hh6Obj{"__typename": "User", "id": id, "billing": hh6Obj{"__typename": "Billing", "plan": "gold" + id}}
			},
		},
		meta: &plan.DataSourceMetadata{
			RootNodes:  []plan.TypeField{{TypeName: "User", FieldNames: []string{"id", "billing"}}},
			ChildNodes: []plan.TypeField{{TypeName: "Billing", FieldNames: []string{"plan"}}},
			FederationMetaData: plan.FederationMetaData{
				Keys: plan.FederationFieldConfigurations{{TypeName: "User", SelectionSet: "id"}},
			},
		},
	}
	// the option under test: planner Configuration.ValidateRequiredExternalFields (+BuildFetchReasons)
	// and ResolverOptions.ValidateRequiredExternalFields
	return &hh6Env{schema: schema, subs: []*hh6Sub{sub1, sub2}, validateRequired: true}
}

func hh6Run(t *testing.T, q string) (hh6Result, []string) {
	env := hh6Scenario()
	res := env.run(t, q, "")
	var fabricated []string
	for _, r := range res.requests {
		if r.host == "s1" && strings.Contains(r.body, `"billing":null`) {
			fabricated = append(fabricated, r.body)
		}
	}
	return res, fabricated
}

// Control: in a list (batch entity fetch) the entity whose required field errored is tainted:
// it is left out of the dependent request and its account is null.
func TestHuntH4_6_Control(t *testing.T) {
	q := `{ users { id account { kind } } }`
	res, fabricated := hh6Run(t, q)
	want := `"data":{"users":[{"id":"1","account":{"kind":"paid-gold1"}},{"id":"2","account":null},{"id":"3","account":{"kind":"paid-gold3"}}]}`
	if res.err != nil || len(fabricated) > 0 || !strings.Contains(res.rest, want) || !strings.Contains(res.rest, "Failed to obtain field dependencies") {
		t.Errorf("query %s: err=%v fabricated=%v\n  observed: %s\n  expected to contain: %s", q, res.err, fabricated, res.rest, want)
	}
}

// The same entity fetched as a single object (entity fetch, not batch): the error path
// ["_entities",0,"billing"] is matched against the already selected entity object instead of the
// _entities list, the entity is never tainted.
// Observed: the representation {"__typename":"User","billing":null,"id":"2"} is sent to s1 and the
// account computed from it ("free") is returned as data, no "Failed to obtain field dependencies".
func TestHuntH4_6_SingleEntityIsTainted(t *testing.T) {
	q := `{ user { id account { kind } } }`
	res, fabricated := hh6Run(t, q)
	if res.err != nil {
		t.Fatalf("Execute: %v", res.err)
	}
	want := `"data":{"user":{"id":"2","account":null}}`
	if len(fabricated) > 0 || !strings.Contains(res.rest, want) {
		t.Errorf("query %s with ValidateRequiredExternalFields, s2 answers billing:null with an error for user 2\n  observed response: %s\n  fabricated request(s) to s1: %s\n  expected: no request with \"billing\":null, response contains %s",
			q, res.rest, strings.Join(fabricated, "\n    "), want)
	}
}
