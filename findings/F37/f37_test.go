// Copy this file to: v2/pkg/introspection/   (package introspection)
// Run: cd v2 && GOFLAGS= go test -vet=off -count=1 -run TestHuntH3_4 ./pkg/introspection/
//
// Finding 4: the kind of a referenced type is taken from the *first* index entry with that name. The index
// also holds directive definitions and type extensions under their names, so when a directive has the same
// name as a type (separate namespaces in GraphQL), or an extension precedes its type, every reference to the
// type is reported with kind SCALAR (the zero value) instead of OBJECT / ENUM / INPUT_OBJECT ...
package introspection

import (
	"fmt"
	"strings"
	"testing"

	"github.com/wundergraph/graphql-go-tools/v2/pkg/astnormalization"
	"github.com/wundergraph/graphql-go-tools/v2/pkg/astparser"
	"github.com/wundergraph/graphql-go-tools/v2/pkg/asttransform"
	"github.com/wundergraph/graphql-go-tools/v2/pkg/astvalidation"
	"github.com/wundergraph/graphql-go-tools/v2/pkg/operationreport"
)

func huntH3_4_generate(t *testing.T, sdl string, normalize bool) *Data {
	t.Helper()
	definition, report := astparser.ParseGraphqlDocumentString(sdl)
	if report.HasErrors() {
		t.Fatalf("schema does not parse: %s", report.Error())
	}
	if err := asttransform.MergeDefinitionWithBaseSchema(&definition); err != nil {
		t.Fatalf("merge with base schema: %v", err)
	}
	if normalize {
		astnormalization.NormalizeDefinition(&definition, &report)
		if report.HasErrors() {
			t.Fatalf("normalize: %s", report.Error())
		}
	}
	validationReport := operationreport.Report{}
	if state := astvalidation.DefaultDefinitionValidator().Validate(&definition, &validationReport); state != astvalidation.Valid {
		t.Fatalf("schema is not valid: %s", validationReport.Error())
	}
	genReport := operationreport.Report{}
	data := &Data{}
	NewGenerator().Generate(&definition, &genReport, data)
	if genReport.HasErrors() {
		t.Fatalf("generate: %s", genReport.Error())
	}
	return data
}

// describe renders "field: KIND name" for every field of Query, following NON_NULL/LIST wrappers
func huntH3_4_describe(data *Data) string {
	var out []string
	for _, f := range data.Schema.TypeByName("Query").Fields {
		ref := f.Type
		for ref.OfType != nil {
			ref = *ref.OfType
		}
		name := "<null>"
		if ref.Name != nil {
			name = *ref.Name
		}
		out = append(out, fmt.Sprintf("%s: %s %s", f.Name, ref.Kind, name))
		for _, a := range f.Args {
			ref := a.Type
			for ref.OfType != nil {
				ref = *ref.OfType
			}
			out = append(out, fmt.Sprintf("%s(%s:): %s %s", f.Name, a.Name, ref.Kind, *ref.Name))
		}
	}
	return strings.Join(out, "; ")
}

// control: without a directive of the same name the kinds are right
func TestHuntH3_4_Control(t *testing.T) {
	sdl := `
directive @label(name: String) on OBJECT
type Query { tag: tag! tags(order: sort, where: filter): [tag!] }
type tag { id: ID }
enum sort { asc desc }
input filter { id: ID }
`
	expected := "tag: OBJECT tag; tags: OBJECT tag; tags(order:): ENUM sort; tags(where:): INPUT_OBJECT filter"
	if observed := huntH3_4_describe(huntH3_4_generate(t, sdl, false)); observed != expected {
		t.Fatalf("schema:%s\nobserved: %s\nexpected: %s", sdl, observed, expected)
	}
}

func TestHuntH3_4_DirectiveWithTheNameOfAType(t *testing.T) {
	// directives and types live in different namespaces: @tag / type tag, @sort / enum sort, @filter / input filter are legal
	sdl := `
directive @tag(name: String) on OBJECT
directive @sort on FIELD_DEFINITION
directive @filter on FIELD_DEFINITION
type Query { tag: tag! tags(order: sort, where: filter): [tag!] }
type tag { id: ID }
enum sort { asc desc }
input filter { id: ID }
`
	expected := "tag: OBJECT tag; tags: OBJECT tag; tags(order:): ENUM sort; tags(where:): INPUT_OBJECT filter"
	data := huntH3_4_generate(t, sdl, false)
	if observed := huntH3_4_describe(data); observed != expected {
		t.Errorf("schema:%s\nobserved type references of Query: %s\nexpected                        : %s", sdl, observed, expected)
	}
	// the type itself is listed with the right kind, so the introspection result contradicts itself
	if kind := data.Schema.TypeByName("tag").Kind; kind != OBJECT {
		t.Errorf("types[name=tag].kind = %s", kind)
	}
}

func TestHuntH3_4_ExtensionBeforeItsType(t *testing.T) {
	// the definition is normalized in place (astnormalization.NormalizeDefinition merges the extension into the type)
	sdl := `
extend type A { y: Int }
type Query { a: A }
type A { x: Int }
`
	expected := "a: OBJECT A"
	if observed := huntH3_4_describe(huntH3_4_generate(t, sdl, true)); observed != expected {
		t.Errorf("schema (normalized in place):%s\nobserved type references of Query: %s\nexpected                        : %s", sdl, observed, expected)
	}
}
