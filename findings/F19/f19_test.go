// F19 demonstration: incremental delivery (@defer) stream well-formedness.
//
// COPY THIS FILE TO: execution/engine/f19_test.go   (package engine, module execution)
// RUN:  cd execution && GOFLAGS= go test -vet=off -count=1 -run 'TestVerifF19' ./engine/
//
// Defect: the planner records a DeferDescriptor for every @defer fragment
// (plan/defer_info_collector.go, run in prepareOperation) BEFORE node selection runs the
// abstract selection rewriter (plan/abstract_selection_rewriter.go, flattenFragments:
// "remove fragment which not allowed"). When a deferred inline fragment has a type
// condition that the subgraph serving the abstract field can never return (the type
// implements the interface / is a union member only in another subgraph), the rewriter
// removes the whole fragment, so the defer id keeps its descriptor but owns no field and
// no fetch. postprocess/extract_defer_fetches.go + build_defer_tree.go build the execution
// tree only from defer ids that own a fetch, while resolve/resolvable.go announces
// `pending` (and counts `outstanding`) for every descriptor. Result: the orphan id is
// announced as pending, never completed, and the final frame says hasNext:true.
package engine

import (
	"bytes"
	"context"
	"encoding/json"
	"io"
	"net/http"
	"strings"
	"sync"
	"testing"
	"time"

	"github.com/jensneuse/abstractlogger"
	"github.com/stretchr/testify/assert"
	"github.com/stretchr/testify/require"

	"github.com/wundergraph/graphql-go-tools/execution/graphql"
	"github.com/wundergraph/graphql-go-tools/v2/pkg/engine/datasource/graphql_datasource"
	"github.com/wundergraph/graphql-go-tools/v2/pkg/engine/plan"
	"github.com/wundergraph/graphql-go-tools/v2/pkg/engine/resolve"
)

// Supergraph: Node is implemented by User (subgraph "first") and Admin (subgraph "second").
// Query.node / Query.result / Query.nodes are served by "first", which knows nothing about Admin.
const verifF19Definition = `
	interface Node { id: ID! }
	type User implements Node { id: ID! name: String! }
	type Admin implements Node { id: ID! level: Int! }
	union Result = User | Admin
	type Query { node: Node! nodes: [Node!]! result: Result! adminNode: Node! }
`

const verifF19FirstSDL = `
	interface Node { id: ID! }
	type User implements Node { id: ID! name: String! }
	union Result = User
	type Query { node: Node! nodes: [Node!]! result: Result! }
`

const verifF19SecondSDL = `
	interface Node { id: ID! }
	type Admin implements Node { id: ID! level: Int! }
	type Query { adminNode: Node! }
`

// verifF19Client answers every subgraph request with a fixed superset document: the loader
// merges it and the resolver renders only what the plan selects, so the test does not depend
// on the exact subgraph query text.
func verifF19Client(response string) *http.Client {
	return &http.Client{
		Transport: testRoundTripper(func(req *http.Request) *http.Response {
			if req.Body != nil {
				_, _ = io.Copy(io.Discard, req.Body)
				_ = req.Body.Close()
			}
			return &http.Response{StatusCode: 200, Body: io.NopCloser(bytes.NewBufferString(response))}
		}),
	}
}

func verifF19DataSources(t *testing.T) []plan.DataSource {
	t.Helper()
	const user = `{"__typename":"User","__internal_typename":"User","id":"1","name":"Black"}`
	const admin = `{"__typename":"Admin","__internal_typename":"Admin","id":"2","level":3}`
	first := `{"data":{"node":` + user + `,"nodes":[` + user + `],"result":` + user + `}}`
	second := `{"data":{"adminNode":` + admin + `}}`

	return []plan.DataSource{
		mustGraphqlDataSourceConfiguration(t, "first",
			mustFactory(t, verifF19Client(first)),
			&plan.DataSourceMetadata{
				RootNodes: []plan.TypeField{{TypeName: "Query", FieldNames: []string{"node", "nodes", "result"}}},
				ChildNodes: []plan.TypeField{
					{TypeName: "User", FieldNames: []string{"id", "name"}},
					{TypeName: "Node", FieldNames: []string{"id"}},
				},
			},
			mustConfiguration(t, graphql_datasource.ConfigurationInput{
				Fetch: &graphql_datasource.FetchConfiguration{URL: "https://first/", Method: "POST"},
				SchemaConfiguration: mustSchemaConfig(t,
					&graphql_datasource.FederationConfiguration{Enabled: true, ServiceSDL: verifF19FirstSDL},
					verifF19FirstSDL),
			}),
		),
		mustGraphqlDataSourceConfiguration(t, "second",
			mustFactory(t, verifF19Client(second)),
			&plan.DataSourceMetadata{
				RootNodes: []plan.TypeField{{TypeName: "Query", FieldNames: []string{"adminNode"}}},
				ChildNodes: []plan.TypeField{
					{TypeName: "Admin", FieldNames: []string{"id", "level"}},
					{TypeName: "Node", FieldNames: []string{"id"}},
				},
			},
			mustConfiguration(t, graphql_datasource.ConfigurationInput{
				Fetch: &graphql_datasource.FetchConfiguration{URL: "https://second/", Method: "POST"},
				SchemaConfiguration: mustSchemaConfig(t,
					&graphql_datasource.FederationConfiguration{Enabled: true, ServiceSDL: verifF19SecondSDL},
					verifF19SecondSDL),
			}),
		),
	}
}

// verifF19Execute runs the query through the real normalization, planner, postprocessor and
// resolver and returns the streamed frames (one per flush) in order.
func verifF19Execute(t *testing.T, query string) []string {
	t.Helper()

	schema, err := graphql.NewSchemaFromString(verifF19Definition)
	require.NoError(t, err)

	engineConf := NewConfiguration(schema)
	engineConf.SetDataSources(verifF19DataSources(t))

	ctx, cancel := context.WithCancel(context.Background())
	defer cancel()

	engine, err := NewExecutionEngine(ctx, abstractlogger.Noop{}, engineConf, resolve.ResolverOptions{MaxConcurrency: 1024})
	require.NoError(t, err)

	var (
		mu     sync.Mutex
		frames []string
	)
	operation := graphql.Request{Query: query}
	resultWriter := graphql.NewEngineResultWriter()
	resultWriter.SetFlushCallback(func(data []byte) {
		mu.Lock()
		frames = append(frames, string(data))
		mu.Unlock()
	})

	done := make(chan error, 1)
	go func() { done <- engine.Execute(ctx, &operation, &resultWriter) }()
	select {
	case err := <-done:
		require.NoError(t, err)
	case <-time.After(10 * time.Second):
		t.Fatal("the incremental stream did not terminate")
	}

	mu.Lock()
	defer mu.Unlock()
	require.NotEmpty(t, frames, "expected an incremental (streamed) response, got: %s", resultWriter.String())
	return append([]string(nil), frames...)
}

type verifF19Frame struct {
	Pending []struct {
		ID string `json:"id"`
	} `json:"pending"`
	Completed []struct {
		ID string `json:"id"`
	} `json:"completed"`
	Incremental []struct {
		ID   string          `json:"id"`
		Data json.RawMessage `json:"data"`
	} `json:"incremental"`
	HasNext *bool `json:"hasNext"`
}

// verifF19AssertWellFormed asserts the stream well-formedness conditions:
//   - every id announced as pending is announced once and completed exactly once,
//   - nothing is completed that was not announced,
//   - hasNext is present on every frame, false on the last one and only there.
//
// It returns the concatenated incremental payloads for content assertions.
func verifF19AssertWellFormed(t *testing.T, frames []string) (incremental string) {
	t.Helper()
	stream := "\n" + strings.Join(frames, "\n")

	pending := map[string]int{}
	completed := map[string]int{}
	var sb strings.Builder
	for i, raw := range frames {
		var f verifF19Frame
		require.NoError(t, json.Unmarshal([]byte(raw), &f), "frame %d is not valid JSON: %s", i, raw)
		for _, p := range f.Pending {
			pending[p.ID]++
		}
		for _, c := range f.Completed {
			completed[c.ID]++
		}
		for _, inc := range f.Incremental {
			sb.Write(inc.Data)
		}
		if assert.NotNil(t, f.HasNext, "frame %d has no hasNext: %s", i, raw) {
			isLast := i == len(frames)-1
			assert.Equal(t, !isLast, *f.HasNext, "frame %d of %d: hasNext must be false on the last frame and only there; stream:%s", i+1, len(frames), stream)
		}
	}
	for id, n := range pending {
		assert.Equal(t, 1, n, "id %s announced as pending %d times; stream:%s", id, n, stream)
		assert.Equal(t, 1, completed[id], "pending id %s completed %d times, want exactly once; stream:%s", id, completed[id], stream)
	}
	for id := range completed {
		assert.Contains(t, pending, id, "id %s completed but never announced as pending; stream:%s", id, stream)
	}
	return sb.String()
}

func TestVerifF19_DeferredFragmentOnTypeUnknownToServingSubgraph(t *testing.T) {
	testCases := []struct {
		name  string
		query string
	}{
		{
			// defer 1 (... on Admin) is removed by the abstract selection rewriter, defer 2 survives
			name:  "interface - impossible deferred fragment first",
			query: `{ node { id ... on Admin @defer { level } ... on User @defer { name } } }`,
		},
		{
			name:  "interface - impossible deferred fragment last",
			query: `{ node { id ... on User @defer { name } ... on Admin @defer { level } } }`,
		},
		{
			name:  "interface list",
			query: `{ nodes { id ... on Admin @defer { level } ... on User @defer { name } } }`,
		},
		{
			name:  "union",
			query: `{ result { ... on Admin @defer { level } ... on User @defer { name } } }`,
		},
		{
			// the removed fragment carries a nested defer: both ids lose their fields
			name:  "impossible deferred fragment with a nested defer",
			query: `{ node { id ... on User @defer { name } ... on Admin @defer { level ... on Node @defer { id } } } }`,
		},
		{
			// the surviving defer lives in a different part of the operation
			name:  "impossible deferred fragment next to an unrelated root defer",
			query: `{ node { id ... on Admin @defer { level } } ... @defer { adminNode { id } } }`,
		},
	}

	for _, tc := range testCases {
		t.Run(tc.name, func(t *testing.T) {
			frames := verifF19Execute(t, tc.query)
			incremental := verifF19AssertWellFormed(t, frames)

			// the surviving deferred fields must still be delivered
			if strings.Contains(tc.query, "name") {
				assert.Contains(t, incremental, `"name":"Black"`, "deferred field name was not delivered; stream:\n%s", strings.Join(frames, "\n"))
			}
			if strings.Contains(tc.query, "adminNode") {
				assert.Contains(t, incremental, `"adminNode":{"id":"2"}`, "deferred field adminNode was not delivered; stream:\n%s", strings.Join(frames, "\n"))
			}
		})
	}
}

// Control: the same shape where every deferred fragment is possible is well-formed today.
func TestVerifF19_Control_AllDeferredFragmentsPossible(t *testing.T) {
	frames := verifF19Execute(t, `{ node { id ... on User @defer { name } } ... @defer { adminNode { id } } }`)
	incremental := verifF19AssertWellFormed(t, frames)
	assert.Contains(t, incremental, `"name":"Black"`)
	assert.Contains(t, incremental, `"adminNode":{"id":"2"}`)
}
