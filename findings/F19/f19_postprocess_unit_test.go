package postprocess

import (
	"testing"

	"github.com/stretchr/testify/assert"
	"github.com/stretchr/testify/require"

	"github.com/wundergraph/graphql-go-tools/v2/pkg/engine/resolve"
)

func TestVerifF19_BuildDeferTree_DropsDescriptorsWithoutFetches(t *testing.T) {
	orig := map[int]resolve.DeferDescriptor{
		1: {ID: 1, ParentID: 0, Path: []string{"node"}},
		2: {ID: 2, ParentID: 0, Path: []string{"node"}, Label: "b"},
	}
	p := makeDeferPlan(orig, 2)
	runBuildDeferTree(p)

	require.NotNil(t, p.Response.DeferTree)
	assert.Equal(t, resolve.DeferTreeNodeKindSingle, p.Response.DeferTree.Kind)
	assert.Equal(t, 2, p.Response.DeferTree.Item.DeferID)
	assert.Equal(t, map[int]resolve.DeferDescriptor{
		2: {ID: 2, ParentID: 0, Path: []string{"node"}, Label: "b"},
	}, p.Response.DeferDescriptors)
	// planner-owned map is not mutated
	assert.Len(t, orig, 2)
}

func TestVerifF19_BuildDeferTree_ReparentsChildrenOfDroppedDescriptors(t *testing.T) {
	// 1 (root, fetch) -> 2 (no fetch) -> 3 (no fetch) -> 4 (fetch); 5 (root, no fetch) -> 6 (fetch)
	p := makeDeferPlan(map[int]resolve.DeferDescriptor{
		1: {ID: 1, ParentID: 0},
		2: {ID: 2, ParentID: 1},
		3: {ID: 3, ParentID: 2},
		4: {ID: 4, ParentID: 3},
		5: {ID: 5, ParentID: 0},
		6: {ID: 6, ParentID: 5},
	}, 1, 4, 6)
	runBuildDeferTree(p)

	assert.Equal(t, map[int]resolve.DeferDescriptor{
		1: {ID: 1, ParentID: 0},
		4: {ID: 4, ParentID: 1},
		6: {ID: 6, ParentID: 0},
	}, p.Response.DeferDescriptors)

	// Parallel(Sequence(Single(1), Single(4)), Single(6))
	require.NotNil(t, p.Response.DeferTree)
	require.Equal(t, resolve.DeferTreeNodeKindParallel, p.Response.DeferTree.Kind)
	require.Len(t, p.Response.DeferTree.ChildNodes, 2)
	seq := p.Response.DeferTree.ChildNodes[0]
	require.Equal(t, resolve.DeferTreeNodeKindSequence, seq.Kind)
	assert.Equal(t, 1, seq.ChildNodes[0].Item.DeferID)
	assert.Equal(t, 4, seq.ChildNodes[1].Item.DeferID)
	assert.Equal(t, 6, p.Response.DeferTree.ChildNodes[1].Item.DeferID)
}

func TestVerifF19_BuildDeferTree_NoOrphansKeepsDescriptorsUntouched(t *testing.T) {
	orig := map[int]resolve.DeferDescriptor{
		1: {ID: 1, ParentID: 0},
		3: {ID: 3, ParentID: 1},
	}
	p := makeDeferPlan(orig, 1, 3)
	runBuildDeferTree(p)
	assert.Equal(t, orig, p.Response.DeferDescriptors)
}

func TestVerifF19_BuildDeferTree_CyclicParentsTerminate(t *testing.T) {
	p := makeDeferPlan(map[int]resolve.DeferDescriptor{
		1: {ID: 1, ParentID: 2},
		2: {ID: 2, ParentID: 1},
		3: {ID: 3, ParentID: 2},
	}, 3)
	runBuildDeferTree(p)
	assert.Equal(t, map[int]resolve.DeferDescriptor{3: {ID: 3, ParentID: 0}}, p.Response.DeferDescriptors)
}
