package transport

// Demonstration for finding F13.
//
// Property: when gateway subscriptions share an upstream WebSocket connection, a subscriber
// cancelling - even while the shared connection is still being dialled or initialised - never
// fails or stalls another subscriber.
//
// Defect: (*WSTransport).getOrDial coalesces concurrent dials for one connection key. The first
// caller (the "dialer") runs t.dial with ITS OWN subscriber context; later callers ("waiters")
// block on dialResult.done and then return dialResult.err. If the dialer's context is cancelled
// while the HTTP upgrade or the connection_init/connection_ack handshake is still in flight, the
// dial fails with context.Canceled and every waiter - whose own context is alive - is handed
// that error.
//
// The tests drive the real WSTransport against an in-process graphql-transport-ws upstream that
// holds every connection attempt at a gate (before the HTTP upgrade, or before connection_ack)
// until the test releases it.

import (
	"context"
	"errors"
	"net/http"
	"net/http/httptest"
	"sync"
	"sync/atomic"
	"testing"
	"time"

	"github.com/coder/websocket"
	"github.com/coder/websocket/wsjson"
	"github.com/stretchr/testify/require"

	"github.com/wundergraph/graphql-go-tools/v2/pkg/engine/datasource/graphql_datasource/subscriptionclient/common"
)

const verifF13Timeout = 5 * time.Second

type verifF13Gate int

const (
	// verifF13GateUpgrade holds the HTTP upgrade: the dialer is blocked inside websocket.Dial.
	verifF13GateUpgrade verifF13Gate = iota
	// verifF13GateAck upgrades and reads connection_init, then holds connection_ack: the dialer
	// is blocked inside protocol.Init (bounded by AckTimeout).
	verifF13GateAck
)

// verifF13Scenario says where the dialer (subscriber A) is when subscriber B joins / A cancels.
type verifF13Scenario struct {
	name string
	gate verifF13Gate
	// settle is an extra pause after the upstream has reported A's attempt at the gate. The
	// upstream reports the ack gate as soon as it has READ connection_init, which is the very
	// moment A's write of connection_init completes; without a pause A may be anywhere between
	// "returning from the write" and "blocked reading connection_ack". With the pause A is
	// parked in the read.
	settle time.Duration
}

var verifF13Scenarios = []verifF13Scenario{
	{name: "dialer in HTTP upgrade", gate: verifF13GateUpgrade},
	{name: "dialer blocked reading connection_ack", gate: verifF13GateAck, settle: 50 * time.Millisecond},
	{name: "dialer just sent connection_init", gate: verifF13GateAck},
}

// verifF13Upstream is a graphql-transport-ws upstream whose connection attempts all stop at a gate.
type verifF13Upstream struct {
	server *httptest.Server

	// seen receives the ordinal (1, 2, ...) of a connection attempt once it has reached the gate.
	seen chan int32
	// release opens the gate for every present and future connection attempt.
	release     chan struct{}
	releaseOnce sync.Once

	attempts atomic.Int32 // HTTP upgrade requests received
	acked    atomic.Int32 // connection_ack messages successfully written
}

func (u *verifF13Upstream) open() { u.releaseOnce.Do(func() { close(u.release) }) }

func newVerifF13Upstream(t *testing.T, gate verifF13Gate) *verifF13Upstream {
	t.Helper()

	u := &verifF13Upstream{
		seen:    make(chan int32, 16),
		release: make(chan struct{}),
	}

	// stop ends all handlers when the test is over, whatever state they are in.
	stop, stopCancel := context.WithCancel(context.Background())

	hold := func(ctx context.Context) bool {
		select {
		case <-u.release:
			return true
		case <-ctx.Done():
			return false
		case <-stop.Done():
			return false
		}
	}

	u.server = httptest.NewServer(http.HandlerFunc(func(w http.ResponseWriter, r *http.Request) {
		n := u.attempts.Add(1)

		if gate == verifF13GateUpgrade {
			u.seen <- n
			if !hold(r.Context()) {
				return
			}
		}

		conn, err := websocket.Accept(w, r, &websocket.AcceptOptions{
			Subprotocols: []string{"graphql-transport-ws"},
		})
		if err != nil {
			return
		}
		defer conn.Close(websocket.StatusNormalClosure, "")

		ctx, cancel := context.WithTimeout(stop, 30*time.Second)
		defer cancel()

		var initMsg map[string]any
		if err := wsjson.Read(ctx, conn, &initMsg); err != nil {
			return
		}
		if initMsg["type"] != "connection_init" {
			return
		}

		if gate == verifF13GateAck {
			u.seen <- n
			if !hold(ctx) {
				return
			}
		}

		if err := wsjson.Write(ctx, conn, map[string]string{"type": "connection_ack"}); err != nil {
			return
		}
		u.acked.Add(1)

		for {
			var msg map[string]any
			if err := wsjson.Read(ctx, conn, &msg); err != nil {
				return
			}
			if msg["type"] == "subscribe" {
				_ = wsjson.Write(ctx, conn, map[string]any{
					"id":      msg["id"],
					"type":    "next",
					"payload": map[string]any{"data": map[string]any{"attempt": n}},
				})
			}
		}
	}))

	t.Cleanup(func() {
		u.open()
		stopCancel()
		u.server.Close()
	})

	return u
}

// verifF13ObservedCtx is a plain context that reports the first call of Done().
//
// It makes "B is a waiter" observable without sleeping: in getOrDial the first use of the
// subscriber context on the waiter path is the `select { case <-ctx.Done(): ... case <-result.done: }`
// which is evaluated after the waiter has looked up (and kept) the shared *dialResult.
type verifF13ObservedCtx struct {
	context.Context
	once       sync.Once
	doneCalled chan struct{}
}

func newVerifF13ObservedCtx(parent context.Context) *verifF13ObservedCtx {
	return &verifF13ObservedCtx{Context: parent, doneCalled: make(chan struct{})}
}

func (c *verifF13ObservedCtx) Done() <-chan struct{} {
	c.once.Do(func() { close(c.doneCalled) })
	return c.Context.Done()
}

type verifF13SubResult struct {
	cancel func()
	err    error
}

func verifF13Dialing(tr *WSTransport, key uint64) *dialResult {
	tr.mu.Lock()
	defer tr.mu.Unlock()
	return tr.dialing[key]
}

// verifF13Setup brings the transport into the state "A is the dialer, held at the gate by the
// upstream; B is a waiter on A's dialResult; exactly one connection attempt has been made".
func verifF13Setup(t *testing.T, sc verifF13Scenario) (
	u *verifF13Upstream, tr *WSTransport,
	cancelA context.CancelFunc, resA chan verifF13SubResult, receiveA func(*testing.T, time.Duration) *common.Message,
	ctxB context.Context, resB chan verifF13SubResult, receiveB func(*testing.T, time.Duration) *common.Message,
) {
	t.Helper()

	u = newVerifF13Upstream(t, sc.gate)
	tr = newTestWSTransport(t, WSTransportOptions{
		AckTimeout:  30 * time.Second, // far beyond the test: only cancellation can abort the init
		IdleTimeout: 30 * time.Second,
	})

	opts := common.Options{
		Endpoint:      u.server.URL,
		Transport:     common.TransportWS,
		WSSubprotocol: common.SubprotocolGraphQLTransportWS,
	}
	key := connKey(opts)
	req := &common.Request{Query: "subscription { test }"}

	// Subscriber A: becomes the dialer.
	var ctxA context.Context
	ctxA, cancelA = context.WithCancel(context.Background())
	t.Cleanup(cancelA)

	var handlerA, handlerB common.Handler
	handlerA, receiveA = collectingHandler()
	handlerB, receiveB = collectingHandler()

	resA = make(chan verifF13SubResult, 1)
	go func() {
		cancel, err := tr.Subscribe(ctxA, req, opts, handlerA)
		resA <- verifF13SubResult{cancel, err}
	}()

	select {
	case n := <-u.seen:
		require.Equal(t, int32(1), n)
	case <-time.After(verifF13Timeout):
		t.Fatal("upstream never saw subscriber A's connection attempt")
	}

	time.Sleep(sc.settle)

	shared := verifF13Dialing(tr, key)
	require.NotNil(t, shared, "A must have registered the shared dial")

	// Subscriber B: identical options, own live context; becomes a waiter.
	ctxBBase, cancelB := context.WithCancel(context.Background())
	t.Cleanup(cancelB)
	observed := newVerifF13ObservedCtx(ctxBBase)
	ctxB = observed

	resB = make(chan verifF13SubResult, 1)
	go func() {
		cancel, err := tr.Subscribe(ctxB, req, opts, handlerB)
		resB <- verifF13SubResult{cancel, err}
	}()

	select {
	case <-observed.doneCalled:
	case <-time.After(verifF13Timeout):
		t.Fatal("subscriber B never started waiting")
	}

	// A's dialResult was registered before B started and is still registered now, so B's lookup
	// found it: B waits on A's dial. Nobody has finished, nobody else has dialled.
	require.Same(t, shared, verifF13Dialing(tr, key), "A's dial must still be in flight")
	require.Equal(t, int32(1), u.attempts.Load(), "B must not have dialled on its own")
	require.Equal(t, 0, tr.ConnCount())
	select {
	case r := <-resA:
		t.Fatalf("A returned before the upstream was released: %v", r.err)
	case r := <-resB:
		t.Fatalf("B returned before the upstream was released: %v", r.err)
	default:
	}

	return u, tr, cancelA, resA, receiveA, ctxB, resB, receiveB
}

func verifF13Await(t *testing.T, who string, ch chan verifF13SubResult) verifF13SubResult {
	t.Helper()
	select {
	case r := <-ch:
		return r
	case <-time.After(verifF13Timeout):
		t.Fatalf("subscriber %s: Subscribe did not return within %s (stalled)", who, verifF13Timeout)
		return verifF13SubResult{}
	}
}

// TestVerifF13CancelledDialerDoesNotFailWaiter: A (dialer) cancels while the shared connection is
// being dialled / initialised. B (waiter, context alive) must not be failed by A's cancellation.
func TestVerifF13CancelledDialerDoesNotFailWaiter(t *testing.T) {
	for _, sc := range verifF13Scenarios {
		t.Run(sc.name, func(t *testing.T) {
			u, tr, cancelA, resA, _, ctxB, resB, receiveB := verifF13Setup(t, sc)

			// Subscriber A goes away.
			cancelA()

			a := verifF13Await(t, "A", resA)
			require.Error(t, a.err, "A cancelled: its Subscribe must fail")
			t.Logf("A (cancelled dialer) got: %v", a.err)

			// From here on the upstream answers promptly.
			u.open()

			b := verifF13Await(t, "B", resB)
			require.NoError(t, ctxB.Err(), "B's own context is alive")

			if b.err != nil {
				// The upstream is healthy and B never cancelled: whatever the error says, it is A's
				// aborted dial that B was handed. (It usually wraps context.Canceled; when the
				// cancellation lands between A's write of connection_init and its read of
				// connection_ack, coder/websocket reports net.ErrClosed instead.)
				t.Fatalf("F13: subscriber B (own context alive, upstream healthy) was failed by subscriber A's cancellation: "+
					"errors.Is(err, context.Canceled)=%v err=%v", errors.Is(b.err, context.Canceled), b.err)
			}
			defer b.cancel()

			// B's subscription is live, on a connection dialled after A's aborted one.
			msg := receiveB(t, verifF13Timeout)
			require.NotNil(t, msg.Payload)
			require.Contains(t, string(msg.Payload.Data), `"attempt":2`)

			// (u.acked is not checked here: once released, the upstream may also "successfully"
			// write an ack into A's already abandoned socket.)
			require.Equal(t, int32(2), u.attempts.Load(), "one aborted dial (A) + one dial for B")
			require.Equal(t, 1, tr.ConnCount())
		})
	}
}

// TestVerifF13ControlSharedDial: same choreography, nobody cancels. A and B share ONE upstream
// connection and both subscriptions are live.
func TestVerifF13ControlSharedDial(t *testing.T) {
	for _, sc := range verifF13Scenarios {
		t.Run(sc.name, func(t *testing.T) {
			u, tr, _, resA, receiveA, ctxB, resB, receiveB := verifF13Setup(t, sc)

			u.open()

			a := verifF13Await(t, "A", resA)
			require.NoError(t, a.err)
			defer a.cancel()

			b := verifF13Await(t, "B", resB)
			require.NoError(t, ctxB.Err())
			require.NoError(t, b.err)
			defer b.cancel()

			msgA := receiveA(t, verifF13Timeout)
			require.Contains(t, string(msgA.Payload.Data), `"attempt":1`)
			msgB := receiveB(t, verifF13Timeout)
			require.Contains(t, string(msgB.Payload.Data), `"attempt":1`)

			require.Equal(t, int32(1), u.attempts.Load(), "A and B must share one upstream connection")
			require.Equal(t, int32(1), u.acked.Load())
			require.Equal(t, 1, tr.ConnCount())
		})
	}
}
