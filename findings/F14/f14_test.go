// F14 demonstration (property C19): after the server's terminal message for an operation id nothing more may be
// sent for that id. ExecutorEngine.startSubscription keeps re-executing a subscription every
// subscriptionUpdateInterval after an execution error was emitted (EventTypeOnError, which both protocol handlers
// turn into the terminal `error` message), so the client receives a second, third, ... `error` for an id whose
// operation already terminated.
//
// COPY TO: execution/subscription/zz_f14_test.go (package subscription)
// RUN:     cd execution && go test -vet=off -count=1 -run TestVerifF14 ./subscription/
package subscription

import (
	"bytes"
	"context"
	"errors"
	"sync"
	"testing"
	"time"

	"github.com/jensneuse/abstractlogger"

	"github.com/wundergraph/graphql-go-tools/execution/graphql"
	"github.com/wundergraph/graphql-go-tools/v2/pkg/ast"
	"github.com/wundergraph/graphql-go-tools/v2/pkg/engine/resolve"
)

type f14Events struct {
	mu     sync.Mutex
	events []EventType
}

func (h *f14Events) Emit(eventType EventType, id string, _ []byte, _ error) {
	if id != "1" {
		return
	}
	h.mu.Lock()
	h.events = append(h.events, eventType)
	h.mu.Unlock()
}

type f14Executor struct{}

func (f14Executor) Execute(_ resolve.SubscriptionResponseWriter) error { return errors.New("upstream failed") }
func (f14Executor) OperationType() ast.OperationType                   { return ast.OperationTypeSubscription }
func (f14Executor) SetContext(_ context.Context)                       {}
func (f14Executor) Reset()                                             {}

type f14Pool struct{}

func (f14Pool) Get(_ []byte) (Executor, error) { return f14Executor{}, nil }
func (f14Pool) Put(_ Executor) error           { return nil }

func TestVerifF14_NothingIsEmittedAfterTheTerminalErrorOfAnOperation(t *testing.T) {
	engine := ExecutorEngine{
		logger:           abstractlogger.Noop{},
		subCancellations: subscriptionCancellations{},
		executorPool:     f14Pool{},
		bufferPool: &sync.Pool{New: func() any {
			w := graphql.NewEngineResultWriterFromBuffer(bytes.NewBuffer(nil))
			return &w
		}},
		subscriptionUpdateInterval: 2 * time.Millisecond,
	}
	h := &f14Events{}
	ctx, cancel := context.WithCancel(context.Background())
	defer cancel()
	if err := engine.StartOperation(ctx, "1", []byte(`{"query":"subscription { s }"}`), h); err != nil {
		t.Fatal(err)
	}
	time.Sleep(60 * time.Millisecond)
	cancel()
	time.Sleep(10 * time.Millisecond)

	h.mu.Lock()
	events := append([]EventType(nil), h.events...)
	h.mu.Unlock()
	if len(events) == 0 || events[0] != EventTypeOnError {
		t.Fatalf("expected the operation to terminate with an error event, got %v", events)
	}
	if len(events) > 1 {
		t.Fatalf("EventTypeOnError is the terminal event of operation 1 (the protocols send `error`), but %d more events were emitted for it afterwards: %v", len(events)-1, events[1:])
	}
}
