package resolve

import (
	"bytes"
	"context"
	"encoding/json"
	"testing"

	"github.com/wundergraph/go-arena"

	"github.com/wundergraph/graphql-go-tools/v2/pkg/ast"
)

// F18 (C02): walkString with UnescapeResponseJson printed the unescaped string content raw between
// quotes when it is not valid JSON: a quote or a newline in the string made the whole response invalid JSON.
func TestVerifF18UnescapeResponseJsonStaysValidJSON(t *testing.T) {
	plan := &Object{Fields: []*Field{{Name: []byte("a"), Value: &String{Path: []string{"a"}, Nullable: true, UnescapeResponseJson: true}}}}
	for _, data := range []string{`{"a":"x\"y"}`, `{"a":"x\ny"}`, `{"a":"plain"}`, `{"a":"{\"k\":1}"}`} {
		res := NewResolvable(arena.NewMonotonicArena(), ResolvableOptions{})
		if err := res.Init(NewContext(context.Background()), []byte(data), ast.OperationTypeQuery); err != nil {
			t.Fatal(err)
		}
		out := &bytes.Buffer{}
		if err := res.Resolve(context.Background(), plan, nil, out); err != nil {
			t.Fatal(err)
		}
		if !json.Valid(out.Bytes()) {
			t.Errorf("data %s renders invalid JSON: %q", data, out.String())
		}
	}
}
