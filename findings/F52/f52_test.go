// Copy this file to: execution/engine/   (package engine)
// Run: cd execution && GOFLAGS= go test -vet=off -count=1 -run TestHuntH3_6 ./engine/
//
// Finding 6: the `name` argument of `__type` is pasted into the JSON input of the introspection data source
// without JSON escaping ("type_name":"{{ .arguments.name }}"). A name containing `"` or `\` breaks the input
// (the engine answers with a subgraph error instead of `__type: null`), and a crafted name changes the request:
// __type(name: "Color\",\"x\":\"") answers with the type Color although no type has that name.
package engine

import (
	"context"
	"testing"

	"github.com/jensneuse/abstractlogger"

	"github.com/wundergraph/graphql-go-tools/execution/graphql"
	"github.com/wundergraph/graphql-go-tools/v2/pkg/engine/resolve"
)

func huntH3_6_engine(t *testing.T) *ExecutionEngine {
	t.Helper()
	schema, err := graphql.NewSchemaFromString(`type Query { color: Color } enum Color { RED BLUE }`)
	if err != nil {
		t.Fatal(err)
	}
	if res, err := schema.Validate(); err != nil || !res.Valid {
		t.Fatalf("schema invalid: %v %v", err, res.Errors)
	}
	eng, err := NewExecutionEngine(context.Background(), abstractlogger.NoopLogger, NewConfiguration(schema), resolve.ResolverOptions{MaxConcurrency: 4})
	if err != nil {
		t.Fatal(err)
	}
	return eng
}

func huntH3_6_run(t *testing.T, eng *ExecutionEngine, query, variables string) string {
	t.Helper()
	req := graphql.Request{Query: query}
	if variables != "" {
		req.Variables = []byte(variables)
	}
	w := graphql.NewEngineResultWriter()
	if err := eng.Execute(context.Background(), &req, &w); err != nil {
		return "Execute error: " + err.Error()
	}
	return w.String()
}

type huntH3_6_case struct {
	query, variables, expected string
}

func huntH3_6_check(t *testing.T, cases []huntH3_6_case) {
	eng := huntH3_6_engine(t)
	for _, c := range cases {
		if observed := huntH3_6_run(t, eng, c.query, c.variables); observed != c.expected {
			t.Errorf("query    : %s\nvariables: %s\nobserved : %s\nexpected : %s", c.query, c.variables, observed, c.expected)
		}
	}
}

// control: existing and unknown plain names
func TestHuntH3_6_Control(t *testing.T) {
	huntH3_6_check(t, []huntH3_6_case{
		{`{ __type(name: "Color") { name kind } }`, ``, `{"data":{"__type":{"name":"Color","kind":"ENUM"}}}`},
		{`{ __type(name: "Colour") { name kind } }`, ``, `{"data":{"__type":null}}`},
		{`query($n: String!) { __type(name: $n) { name } }`, `{"n":"Color"}`, `{"data":{"__type":{"name":"Color"}}}`},
		{`query($n: String!) { __type(name: $n) { name } }`, `{"n":"Colour"}`, `{"data":{"__type":null}}`},
	})
}

// no type is called `Color","x":"`, the answer has to be null
func TestHuntH3_6_NameIsNotEscaped_AnswersWithAnotherType(t *testing.T) {
	huntH3_6_check(t, []huntH3_6_case{
		{`{ __type(name: "Color\",\"x\":\"") { name kind } }`, ``, `{"data":{"__type":null}}`},
		{`query($n: String!) { __type(name: $n) { name kind } }`, `{"n":"Color\",\"x\":\""}`, `{"data":{"__type":null}}`},
	})
}

// no type has a quote or a backslash in its name, the answer has to be null without an error
func TestHuntH3_6_NameIsNotEscaped_Error(t *testing.T) {
	huntH3_6_check(t, []huntH3_6_case{
		{`{ __type(name: "My\"Type") { name } }`, ``, `{"data":{"__type":null}}`},
		{`query($n: String!) { __type(name: $n) { name } }`, `{"n":"My\"Type"}`, `{"data":{"__type":null}}`},
		{`query($n: String!) { __type(name: $n) { name } }`, `{"n":"C:\\qux"}`, `{"data":{"__type":null}}`},
	})
}
