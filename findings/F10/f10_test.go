// F10 demonstration (property C15): "the variables object exposed after normalization is always valid JSON".
// The lexer scans 007, 01, 1., 1e, 1.5e+ as number tokens; variable extraction copied them verbatim.
//
// COPY TO: v2/pkg/astnormalization/zz_f10_test.go (package astnormalization)
// RUN:     cd v2 && go test -vet=off -count=1 -run TestVerifF10 ./pkg/astnormalization/
package astnormalization

import (
	"encoding/json"
	"testing"

	"github.com/wundergraph/graphql-go-tools/v2/pkg/astparser"
	"github.com/wundergraph/graphql-go-tools/v2/pkg/asttransform"
	"github.com/wundergraph/graphql-go-tools/v2/pkg/operationreport"
)

func TestVerifF10_MalformedNumberLiteralsNeverReachTheVariablesJSON(t *testing.T) {
	def, rep := astparser.ParseGraphqlDocumentString(`schema { query: Query } type Query { f(i: Int, x: Float): String }`)
	if rep.HasErrors() {
		t.Fatal(rep.Error())
	}
	if err := asttransform.MergeDefinitionWithBaseSchema(&def); err != nil {
		t.Fatal(err)
	}
	for _, q := range []string{`{ f(i: 007) }`, `{ f(i: 01) }`, `{ f(x: 1.) }`, `{ f(x: 1e) }`, `{ f(x: 1.5e+) }`, `{ f(i: 7) }`, `{ f(x: -1.5e+3) }`, `{ f(i: 0) }`} {
		op, rep := astparser.ParseGraphqlDocumentString(q)
		if rep.HasErrors() {
			continue // rejected by the parser: fine
		}
		report := operationreport.Report{}
		NewWithOpts(WithExtractVariables()).NormalizeOperation(&op, &def, &report)
		if report.HasErrors() {
			continue // rejected by normalization: fine
		}
		if !json.Valid(op.Input.Variables) {
			t.Errorf("%s: accepted, but the extracted variables are not valid JSON: %s", q, op.Input.Variables)
		}
	}
}
