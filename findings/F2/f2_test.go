package resolve

import (
	"bytes"
	"context"
	"testing"

	"github.com/wundergraph/go-arena"

	"github.com/wundergraph/graphql-go-tools/v2/pkg/ast"
)

// F2 (C02): a nullable inner list of a nested list ([[Int!]]) has no path of its own. On an item
// error walkArray called astjson.SetNull(parent, <empty path>...) which panics with index out of
// range [-1]. Expected: the inner list is replaced by null (nearest nullable ancestor).
func TestVerifF2NestedListNullBubbling(t *testing.T) {
	object := &Object{
		Fields: []*Field{{
			Name: []byte("a"),
			Value: &Array{
				Path:     []string{"a"},
				Nullable: true,
				Item: &Array{
					Nullable: true,
					Item:     &Integer{Nullable: false},
				},
			},
		}},
	}
	res := NewResolvable(arena.NewMonotonicArena(), ResolvableOptions{})
	ctx := NewContext(context.Background())
	if err := res.Init(ctx, []byte(`{"a":[[1,2],[null]]}`), ast.OperationTypeQuery); err != nil {
		t.Fatal(err)
	}
	out := &bytes.Buffer{}
	func() {
		defer func() {
			if r := recover(); r != nil {
				t.Fatalf("renderer panicked: %v", r)
			}
		}()
		if err := res.Resolve(context.Background(), object, nil, out); err != nil {
			t.Fatal(err)
		}
	}()
	want := `{"errors":[{"message":"Cannot return null for non-nullable field 'Query.a'.","path":["a",1,0]}],"data":{"a":[[1,2],null]}}`
	if out.String() != want {
		t.Fatalf("got  %s\nwant %s", out.String(), want)
	}
}
