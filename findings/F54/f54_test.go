// Copy to: v2/pkg/variablesvalidation/  (package variablesvalidation)
//
//   cd v2 && go test -vet=off -count=1 -run TestF54 ./pkg/variablesvalidation/
//
// Finding F54 (property C06, "lists" and "defaults"): the default value of an input field is injected into the
// variables after the list coercion ran (same walk, registration order), so a default that relies on list input
// coercion - `list: [Int] = 5`, a valid schema - stays uncoerced and the variables validator rejects the valid request.
package variablesvalidation

import (
	"testing"

	"github.com/wundergraph/graphql-go-tools/v2/pkg/astnormalization"
	"github.com/wundergraph/graphql-go-tools/v2/pkg/asttransform"
	"github.com/wundergraph/graphql-go-tools/v2/pkg/astvalidation"
	"github.com/wundergraph/graphql-go-tools/v2/pkg/internal/unsafeparser"
	"github.com/wundergraph/graphql-go-tools/v2/pkg/operationreport"
)

const f54Schema = `
type Query { f(a: In2, b: In3): String }
input In2 { opt: Int, list: [Int] = 5 }
input In3 { inner: In2 = {list: 7} }`

func f54Run(t *testing.T, operation, variables string) (validationErr error, variablesAfter string) {
	t.Helper()
	def := unsafeparser.ParseGraphqlDocumentString(f54Schema)
	op := unsafeparser.ParseGraphqlDocumentString(operation)
	op.Input.Variables = []byte(variables)
	if err := asttransform.MergeDefinitionWithBaseSchema(&def); err != nil {
		t.Fatal(err)
	}
	// the operation itself is valid GraphQL
	report := &operationreport.Report{}
	if astvalidation.DefaultOperationValidator().Validate(&op, &def, report); report.HasErrors() {
		t.Fatalf("operation %q is not valid: %s", operation, report.Error())
	}
	report = &operationreport.Report{}
	astnormalization.NewNormalizer(true, true).NormalizeOperation(&op, &def, report)
	if report.HasErrors() {
		t.Fatalf("normalization failed: %s", report.Error())
	}
	validator := NewVariablesValidator(VariablesValidatorOptions{})
	return validator.Validate(&op, &def, op.Input.Variables), string(op.Input.Variables)
}

func f54Check(t *testing.T, operation, variables, wantVariablesAfter string) {
	t.Helper()
	err, after := f54Run(t, operation, variables)
	if err != nil || after != wantVariablesAfter {
		t.Errorf("input: operation %q, variables %s\n"+
			"observed: validation error = %v, variables after normalization = %s\n"+
			"expected: accepted, variables after normalization = %s",
			operation, variables, err, after, wantVariablesAfter)
	}
}


// control: a default that needs no coercion, and a supplied single value
func TestF54_Control(t *testing.T) {
	f54Check(t, `query($v: In2){f(a:$v)}`, `{"v":{"list":3}}`, `{"v":{"list":[3]}}`)
	f54Check(t, `query($v: In2){f(a:$v)}`, `{"v":{"list":[1,2]}}`, `{"v":{"list":[1,2]}}`)
}

func TestF54_InputFieldDefaultNeedsListCoercion(t *testing.T) {
	f54Check(t, `query($v: In2){f(a:$v)}`, `{"v":{}}`, `{"v":{"list":[5]}}`)
}

func TestF54_NestedInputFieldDefault(t *testing.T) {
	f54Check(t, `query($v: In3){f(b:$v)}`, `{"v":{}}`, `{"v":{"inner":{"list":[7]}}}`)
}
