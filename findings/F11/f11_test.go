// F11 demonstration (property C15): "the variables object exposed after normalization is always valid JSON".
// A raw TAB is a valid character of a GraphQL string literal; variable extraction copied the string content
// between quotes without escaping it, so the extracted variables were not valid JSON.
//
// COPY TO: v2/pkg/astnormalization/zz_f11_test.go (package astnormalization)
// RUN:     cd v2 && go test -vet=off -count=1 -run TestVerifF11 ./pkg/astnormalization/
package astnormalization

import (
	"encoding/json"
	"testing"

	"github.com/wundergraph/graphql-go-tools/v2/pkg/astparser"
	"github.com/wundergraph/graphql-go-tools/v2/pkg/asttransform"
	"github.com/wundergraph/graphql-go-tools/v2/pkg/operationreport"
)

func TestVerifF11_RawTabInStringLiteralStaysValidJSON(t *testing.T) {
	def, rep := astparser.ParseGraphqlDocumentString(`schema { query: Query } type Query { f(s: String, l: [String], o: In): String } input In { s: String }`)
	if rep.HasErrors() {
		t.Fatal(rep.Error())
	}
	if err := asttransform.MergeDefinitionWithBaseSchema(&def); err != nil {
		t.Fatal(err)
	}
	for _, tc := range []struct{ query, want string }{
		{"{ f(s: \"a\tb\") }", `{"a":"a\tb"}`},
		{"{ f(l: [\"a\tb\", \"c\"]) }", `{"a":["a\tb","c"]}`},
		{"{ f(o: {s: \"a\tb\"}) }", `{"a":{"s":"a\tb"}}`},
		{`{ f(s: "plain") }`, `{"a":"plain"}`},
	} {
		op, rep := astparser.ParseGraphqlDocumentString(tc.query)
		if rep.HasErrors() {
			t.Fatalf("%q: %s", tc.query, rep.Error())
		}
		report := operationreport.Report{}
		NewWithOpts(WithExtractVariables()).NormalizeOperation(&op, &def, &report)
		if report.HasErrors() {
			t.Fatalf("%q: %s", tc.query, report.Error())
		}
		if !json.Valid(op.Input.Variables) {
			t.Errorf("%q: extracted variables are not valid JSON: %q", tc.query, op.Input.Variables)
			continue
		}
		var got, want any
		_ = json.Unmarshal(op.Input.Variables, &got)
		_ = json.Unmarshal([]byte(tc.want), &want)
		gb, _ := json.Marshal(got)
		wb, _ := json.Marshal(want)
		if string(gb) != string(wb) {
			t.Errorf("%q: variables denote %s, want %s", tc.query, gb, wb)
		}
	}
}
