package variablesvalidation

import (
	"testing"

	"github.com/wundergraph/graphql-go-tools/v2/pkg/astparser"
	"github.com/wundergraph/graphql-go-tools/v2/pkg/asttransform"
)

// F4/F5 (C06): an explicit null for a non-null input field that has a default value was accepted
// (the default must only rescue an ABSENT field), and so was a null element of [Int!] when the
// field has a default.
func TestVerifF4ExplicitNullWithDefault(t *testing.T) {
	schema := `type Query { f(in: In): String } input In { a: Int! = 1  l: [Int!] = [1] }`
	definition, rep := astparser.ParseGraphqlDocumentString(schema)
	if rep.HasErrors() {
		t.Fatal(rep.Error())
	}
	if err := asttransform.MergeDefinitionWithBaseSchema(&definition); err != nil {
		t.Fatal(err)
	}
	op, rep := astparser.ParseGraphqlDocumentString(`query Q($in: In) { f(in: $in) }`)
	if rep.HasErrors() {
		t.Fatal(rep.Error())
	}
	for _, vars := range []string{`{"in":{"a":null}}`, `{"in":{"l":[null]}}`} {
		v := NewVariablesValidator(VariablesValidatorOptions{})
		if err := v.Validate(&op, &definition, []byte(vars)); err == nil {
			t.Errorf("variables %s accepted although a non-null position holds null", vars)
		}
	}
	// absent fields with defaults stay valid
	v := NewVariablesValidator(VariablesValidatorOptions{})
	if err := v.Validate(&op, &definition, []byte(`{"in":{}}`)); err != nil {
		t.Errorf("absent fields with defaults rejected: %v", err)
	}
}
