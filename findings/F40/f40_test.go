// Copy to: v2/pkg/engine/resolve/  (package resolve, internal test)
// Run:     cd v2 && GOFLAGS= go test -vet=off -count=1 -run TestHuntH2_6 ./pkg/engine/resolve/
//
// Property C15: an argument value supplied as a JSON variable reaches the upstream as valid JSON denoting the same
// GraphQL value (anchor: v2/pkg/engine/resolve/variables_renderer.go).
//
// Defect: GraphQLVariableRenderer (selected by plan.RenderArgumentAsGraphQLValue for `{{ .arguments.x }}` templates,
// plan/visitor.go:1152) renders a value as a GraphQL literal that is pasted INTO a JSON string - the "query" of the
// upstream request - which is why it opens a string with `\"`. For the characters of the string it only handles `"`,
// and handles it wrongly (`\\"`: an escaped backslash followed by a bare quote, which ends the JSON string);
// backslashes and control characters are copied verbatim. The upstream request is invalid JSON or carries another value.
package resolve

import (
	"bytes"
	"context"
	"encoding/json"
	"reflect"
	"testing"

	"github.com/wundergraph/astjson"

	"github.com/wundergraph/graphql-go-tools/v2/pkg/astparser"
)

// huntH2_6RoundTrip renders the variable value into the request body of an upstream whose input template is
// {"query":"{f(a: {{ .arguments.a }})}"} and reads back the value of the argument a as the upstream would.
func huntH2_6RoundTrip(t *testing.T, variableJSON string) (body string, received any, err error) {
	t.Helper()
	r := &GraphQLVariableRenderer{Kind: VariableRendererKindGraphqlWithValidation}
	buf := &bytes.Buffer{}
	if err := r.RenderVariable(context.Background(), astjson.MustParse(variableJSON), buf); err != nil {
		return "", nil, err
	}
	body = `{"query":"{f(a: ` + buf.String() + `)}"}`
	var request struct{ Query string }
	if err := json.Unmarshal([]byte(body), &request); err != nil {
		return body, nil, err
	}
	doc, report := astparser.ParseGraphqlDocumentString(request.Query)
	if report.HasErrors() {
		return body, nil, report
	}
	valueJSON, err := doc.ValueToJSON(doc.Arguments[0].Value)
	if err != nil {
		return body, nil, err
	}
	if err := json.Unmarshal(valueJSON, &received); err != nil {
		return body, nil, err
	}
	return body, received, nil
}

func huntH2_6Check(t *testing.T, variableJSON string) {
	t.Helper()
	var want any
	if err := json.Unmarshal([]byte(variableJSON), &want); err != nil {
		t.Fatal(err)
	}
	body, got, err := huntH2_6RoundTrip(t, variableJSON)
	if err != nil {
		t.Errorf("variable value: %s\n upstream request body: %s\n observed: the upstream cannot read it: %v\n expected: argument value %s", variableJSON, body, err, variableJSON)
		return
	}
	if !reflect.DeepEqual(got, want) {
		t.Errorf("variable value: %s\n upstream request body: %s\n observed argument value: %#v\n expected argument value: %#v", variableJSON, body, got, want)
	}
}

func TestHuntH2_6_QuoteBreaksTheRequestBody(t *testing.T) {
	huntH2_6Check(t, `"say \"hi\""`)
}

func TestHuntH2_6_BackslashChangesTheValue(t *testing.T) {
	huntH2_6Check(t, `"C:\\new\\table"`) // the query then holds C:<LF>ew<TAB>able, with a raw line feed inside the string
	huntH2_6Check(t, `{"path":"a\\\\b"}`)
}

func TestHuntH2_6_ControlCharacterBreaksTheRequestBody(t *testing.T) {
	huntH2_6Check(t, `"line\nbreak"`)
	huntH2_6Check(t, `"tab\there"`)
}

// Controls: pass on the unchanged code.
func TestHuntH2_6_Control(t *testing.T) {
	huntH2_6Check(t, `"plain"`)
	huntH2_6Check(t, `"é ü 😀"`)
	huntH2_6Check(t, `{"a":[1,2.5,true,null,"x"],"b":{"c":"d"}}`)
}
