package astparser

import (
	"testing"

	"github.com/wundergraph/graphql-go-tools/v2/pkg/ast"
	"github.com/wundergraph/graphql-go-tools/v2/pkg/operationreport"
)

// F1 (C05): a field named query/mutation/subscription/fragment inside a selection set reset the
// tokenizer's field accounting: 5 fields were accepted with MaxFields: 2.
func TestVerifF1FieldLimitBypass(t *testing.T) {
	doc := ast.NewSmallDocument()
	doc.Input.ResetInputString("{ query a b c d }")
	report := operationreport.Report{}
	_, err := NewParser().ParseWithLimits(TokenizerLimits{MaxDepth: 10, MaxFields: 2}, doc, &report)
	if err == nil && !report.HasErrors() {
		t.Fatalf("document with 5 fields accepted with MaxFields: 2")
	}
}
