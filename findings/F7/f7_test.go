package resolve

// Demonstration of a race window in inbound request de-duplication
// (InboundRequestSingleFlight.GetOrCreate / FinishOk, Resolver.ArenaResolveGraphQLResponse).
//
// Interleaving (F = follower, L = leader, same single flight key):
//
//	L: GetOrCreate            -> LoadOrStore stores request R, shared == false, L is the leader
//	F: GetOrCreate            -> LoadOrStore loads R, shared == true      (F has NOT yet called AddFollower)
//	L: FinishOk(R, data)      -> Delete(key); HasFollowers() == false => R.Data stays nil; close(R.Done)
//	F: R.AddFollower(); <-R.Done; R.Err == nil  => returns (R, nil) with R.Data == nil
//	F: (ArenaResolveGraphQLResponse) `inflight != nil && inflight.Data != nil` is false
//	   => F believes it is the leader, resolves on its own and calls FinishOk(R, ...)
//	   => close(R.Done) on an already closed channel => panic: close of closed channel
//
// Tests:
//   - TestVerifF7_Replay_*: deterministic replay of exactly this schedule. The only white-box step is that the
//     follower's early LoadOrStore (which cannot be paused from the outside) is replayed by re-publishing R in
//     the shard map after the leader's FinishOk, so that the follower's real LoadOrStore observes the very same
//     pointer it would have loaded before the leader's Delete. Everything else runs the real functions.
//   - TestVerifF7_Race_*: no white-box step at all, real goroutines racing through the real functions.
//
// All tests fail on the unfixed code and pass once a follower that wakes up without data no longer gets the
// finished request handed back (e.g. GetOrCreate returns (nil, nil) so it resolves alone).

import (
	"bytes"
	"context"
	"fmt"
	"net/http"
	"os"
	"runtime"
	"strconv"
	"strings"
	"sync"
	"sync/atomic"
	"testing"
	"time"

	"github.com/wundergraph/graphql-go-tools/v2/pkg/ast"
	"github.com/wundergraph/graphql-go-tools/v2/pkg/engine/datasource/httpclient"
)

const (
	verifF7Expected       = `{"data":{"value":"v"}}`
	verifF7ClosedChanText = "close of closed channel"
)

// verifF7Budget is the time the racing tests keep hammering when nothing goes wrong (i.e. on fixed code).
func verifF7Budget() time.Duration {
	if s := os.Getenv("VERIF_F7_BUDGET_MS"); s != "" {
		if ms, err := strconv.Atoi(s); err == nil && ms > 0 {
			return time.Duration(ms) * time.Millisecond
		}
	}
	return 2500 * time.Millisecond
}

type verifF7DataSource struct {
	data []byte
}

func (d *verifF7DataSource) Load(_ context.Context, _ http.Header, _ []byte) ([]byte, error) {
	return d.data, nil
}

func (d *verifF7DataSource) LoadWithFiles(_ context.Context, _ http.Header, _ []byte, _ []*httpclient.FileUpload) ([]byte, error) {
	return d.data, nil
}

// verifF7Response is a trivial query plan: one fetch from a static data source, one string field.
func verifF7Response() *GraphQLResponse {
	return &GraphQLResponse{
		Info: &GraphQLResponseInfo{
			OperationType: ast.OperationTypeQuery,
		},
		Fetches: Single(&SingleFetch{
			FetchConfiguration: FetchConfiguration{
				DataSource: &verifF7DataSource{data: []byte(`{"value":"v"}`)},
			},
		}),
		Data: &Object{
			Fields: []*Field{
				{
					Name: []byte("value"),
					Value: &String{
						Path:     []string{"value"},
						Nullable: false,
					},
				},
			},
		},
	}
}

// verifF7Context returns a fresh context; all of them share the same single flight key.
func verifF7Context() *Context {
	ctx := NewContext(context.Background())
	ctx.Request.ID = 42
	ctx.VariablesHash = 1337
	return ctx
}

func verifF7Resolver(t *testing.T) *Resolver {
	t.Helper()
	rCtx, cancel := context.WithCancel(context.Background())
	t.Cleanup(cancel)
	return New(rCtx, ResolverOptions{
		MaxConcurrency:               1024,
		PropagateSubgraphErrors:      true,
		PropagateSubgraphStatusCodes: true,
	})
}

// verifF7Workers makes sure the racing tests really run in parallel (the window needs two goroutines
// executing simultaneously, it is practically never hit with GOMAXPROCS=1) and returns the worker count.
func verifF7Workers(t *testing.T) int {
	t.Helper()
	if prev := runtime.GOMAXPROCS(0); prev < 4 {
		runtime.GOMAXPROCS(4)
		t.Cleanup(func() { runtime.GOMAXPROCS(prev) })
	}
	workers := 2 * runtime.GOMAXPROCS(0)
	if workers < 8 {
		workers = 8
	}
	return workers
}

func verifF7IsClosed(ch chan struct{}) bool {
	select {
	case <-ch:
		return true
	default:
		return false
	}
}

// verifF7Recover runs fn and returns the recovered panic value rendered as text ("" if fn did not panic).
func verifF7Recover(fn func()) (panicText string) {
	defer func() {
		if r := recover(); r != nil {
			panicText = fmt.Sprint(r)
		}
	}()
	fn()
	return ""
}

// verifF7PausableWriter blocks the first Write until released, so that the test can observe the leader's
// inflight request while the leader is still in flight.
type verifF7PausableWriter struct {
	buf     bytes.Buffer
	ready   chan struct{}
	release chan struct{}
	once    sync.Once
}

func (w *verifF7PausableWriter) Write(p []byte) (int, error) {
	w.once.Do(func() { close(w.ready) })
	<-w.release
	return w.buf.Write(p)
}

// TestVerifF7_Replay_GetOrCreateFinishOk replays the schedule from the file comment on the bare single flight.
func TestVerifF7_Replay_GetOrCreateFinishOk(t *testing.T) {
	sf := NewRequestSingleFlight(0)
	response := verifF7Response()
	data := []byte(verifF7Expected)

	// L: GetOrCreate -> leader
	leaderReq, err := sf.GetOrCreate(verifF7Context(), response)
	if err != nil || leaderReq == nil {
		t.Fatalf("leader: unexpected GetOrCreate result (%v, %v)", leaderReq, err)
	}
	if verifF7IsClosed(leaderReq.Done) {
		t.Fatalf("leader: Done must be open")
	}

	// F: LoadOrStore loads leaderReq (shared) and is descheduled before AddFollower -- replayed below.

	// L: FinishOk with no registered follower: nothing is copied, Done is closed, entry is deleted.
	sf.FinishOk(leaderReq, data)
	if leaderReq.Data != nil || !verifF7IsClosed(leaderReq.Done) {
		t.Fatalf("leader: expected Data == nil and Done closed after FinishOk without followers")
	}

	// Replay of F's early LoadOrStore: make F's LoadOrStore observe the pointer it loaded before L's Delete.
	shard := sf.shardFor(leaderReq.ID)
	shard.m.Store(leaderReq.ID, leaderReq)
	defer shard.m.Delete(leaderReq.ID)

	// F: the rest of the real GetOrCreate: AddFollower, <-Done, Err == nil.
	followerReq, err := sf.GetOrCreate(verifF7Context(), response)
	if err != nil {
		t.Fatalf("follower: unexpected error %v", err)
	}
	if followerReq == nil {
		// acceptable: not de-duplicated, the follower resolves alone
		sf.FinishOk(followerReq, data) // what the caller does; must be a no-op
		return
	}
	if followerReq.Data != nil {
		// acceptable: a proper follower with the leader's data
		return
	}

	// Defect: the follower was handed the leader's finished request without data. For the caller
	// (`inflight != nil && inflight.Data != nil` is false) this is indistinguishable from being the leader.
	t.Errorf("follower got the leader's FINISHED request back (same pointer: %v, Done closed: %v, Data == nil): "+
		"the caller will take the leader path", followerReq == leaderReq, verifF7IsClosed(followerReq.Done))

	// ... and the leader path ends in FinishOk on the already closed channel.
	if p := verifF7Recover(func() { sf.FinishOk(followerReq, data) }); p != "" {
		t.Errorf("follower's FinishOk panicked: %s", p)
	}
}

// TestVerifF7_Replay_ArenaResolveGraphQLResponse replays the same schedule through the real resolver.
func TestVerifF7_Replay_ArenaResolveGraphQLResponse(t *testing.T) {
	r := verifF7Resolver(t)
	response := verifF7Response()

	// L: the real leader, paused while writing its response (i.e. right before FinishOk).
	leaderWriter := &verifF7PausableWriter{ready: make(chan struct{}), release: make(chan struct{})}
	leaderDone := make(chan string, 1)
	go func() {
		leaderDone <- verifF7Recover(func() {
			_, err := r.ArenaResolveGraphQLResponse(verifF7Context(), response, leaderWriter)
			if err != nil {
				panic(fmt.Sprintf("leader error: %v", err))
			}
		})
	}()
	select {
	case <-leaderWriter.ready:
	case <-time.After(5 * time.Second):
		t.Fatalf("timeout waiting for the leader")
	}

	// F: LoadOrStore loads the leader's request and is descheduled before AddFollower -- replayed below.
	var (
		leaderReq *InflightRequest
		shard     *requestShard
	)
	for i := range r.inboundRequestSingleFlight.shards {
		s := &r.inboundRequestSingleFlight.shards[i]
		s.m.Range(func(_, v any) bool {
			leaderReq, shard = v.(*InflightRequest), s
			return false
		})
	}
	if leaderReq == nil {
		t.Fatalf("no inflight request found for the leader")
	}

	// L: finishes (real FinishOk inside ArenaResolveGraphQLResponse), no follower registered.
	close(leaderWriter.release)
	if p := <-leaderDone; p != "" {
		t.Fatalf("leader failed: %s", p)
	}
	if got := leaderWriter.buf.String(); got != verifF7Expected {
		t.Fatalf("leader output: want %s, got %s", verifF7Expected, got)
	}
	if leaderReq.Data != nil || !verifF7IsClosed(leaderReq.Done) {
		t.Fatalf("leader: expected Data == nil and Done closed after finishing without followers")
	}

	// Replay of F's early LoadOrStore.
	shard.m.Store(leaderReq.ID, leaderReq)
	defer shard.m.Delete(leaderReq.ID)

	// F: the real ArenaResolveGraphQLResponse.
	buf := &bytes.Buffer{}
	var (
		info *GraphQLResolveInfo
		err  error
	)
	p := verifF7Recover(func() {
		info, err = r.ArenaResolveGraphQLResponse(verifF7Context(), response, buf)
	})
	if p != "" {
		t.Fatalf("follower request crashed inside ArenaResolveGraphQLResponse with panic: %s (output so far: %q)", p, buf.String())
	}
	if err != nil || info == nil {
		t.Fatalf("follower: unexpected result (%v, %v)", info, err)
	}
	if got := buf.String(); got != verifF7Expected {
		t.Fatalf("follower output: want %s, got %s", verifF7Expected, got)
	}
}

// TestVerifF7_Race_GetOrCreateFinishOk: real race, no white-box step. Goroutines continuously issue identical
// requests against the bare single flight and behave exactly like ArenaResolveGraphQLResponse does
// (`req != nil && req.Data != nil` => follower, otherwise leader => FinishOk) with zero leader work.
func TestVerifF7_Race_GetOrCreateFinishOk(t *testing.T) {
	sf := NewRequestSingleFlight(0)
	response := verifF7Response()
	data := []byte(verifF7Expected)

	workers := verifF7Workers(t)

	var (
		stop           atomic.Bool
		calls          atomic.Int64
		leaders        atomic.Int64
		followers      atomic.Int64
		finishedHanded atomic.Int64 // GetOrCreate returned a request with Data == nil whose Done is ALREADY closed
		doubleClose    atomic.Int64 // FinishOk panicked with "close of closed channel"
		otherPanics    atomic.Int64
		firstPanic     atomic.Value
		wg             sync.WaitGroup
	)

	deadline := time.Now().Add(verifF7Budget())
	wg.Add(workers)
	for w := 0; w < workers; w++ {
		go func() {
			defer wg.Done()
			ctx := verifF7Context()
			for i := 0; !stop.Load(); i++ {
				if i%256 == 0 && time.Now().After(deadline) {
					return
				}
				calls.Add(1)
				req, err := sf.GetOrCreate(ctx, response)
				if err != nil {
					otherPanics.Add(1)
					firstPanic.CompareAndSwap(nil, "GetOrCreate error: "+err.Error())
					continue
				}
				if req != nil && req.Data != nil { // follower (same test as in ArenaResolveGraphQLResponse)
					followers.Add(1)
					if !bytes.Equal(req.Data, data) {
						otherPanics.Add(1)
						firstPanic.CompareAndSwap(nil, "follower got wrong data: "+string(req.Data))
					}
					continue
				}
				// leader path
				leaders.Add(1)
				if req != nil && verifF7IsClosed(req.Done) {
					// A true leader owns an OPEN Done channel. This caller is a follower that was handed
					// the leader's finished request without data.
					finishedHanded.Add(1)
				}
				if p := verifF7Recover(func() { sf.FinishOk(req, data) }); p != "" {
					if strings.Contains(p, verifF7ClosedChanText) {
						doubleClose.Add(1)
					} else {
						otherPanics.Add(1)
					}
					firstPanic.CompareAndSwap(nil, p)
					if doubleClose.Load() >= 5 {
						stop.Store(true)
					}
				}
			}
		}()
	}
	wg.Wait()

	t.Logf("workers=%d GOMAXPROCS=%d calls=%d leaders=%d followers=%d finishedRequestHandedToFollower=%d doubleClosePanics=%d otherFailures=%d",
		workers, runtime.GOMAXPROCS(0), calls.Load(), leaders.Load(), followers.Load(), finishedHanded.Load(), doubleClose.Load(), otherPanics.Load())

	if n := finishedHanded.Load(); n > 0 {
		t.Errorf("%d time(s) GetOrCreate handed a follower the leader's finished request (Done closed, Data == nil)", n)
	}
	if n := doubleClose.Load(); n > 0 {
		t.Errorf("%d time(s) FinishOk panicked with %q; first panic: %v", n, verifF7ClosedChanText, firstPanic.Load())
	}
	if n := otherPanics.Load(); n > 0 {
		t.Errorf("%d other failure(s); first: %v", n, firstPanic.Load())
	}
}

// TestVerifF7_Race_ArenaResolveGraphQLResponse: real race through the real resolver. Many goroutines
// continuously send the identical request; panics are recovered per request and counted.
func TestVerifF7_Race_ArenaResolveGraphQLResponse(t *testing.T) {
	r := verifF7Resolver(t)
	response := verifF7Response()

	workers := verifF7Workers(t)

	var (
		stop         atomic.Bool
		requests     atomic.Int64
		deduplicated atomic.Int64
		doubleClose  atomic.Int64
		otherFails   atomic.Int64
		firstFail    atomic.Value
		wg           sync.WaitGroup
	)

	deadline := time.Now().Add(verifF7Budget())
	wg.Add(workers)
	for w := 0; w < workers; w++ {
		go func() {
			defer wg.Done()
			buf := &bytes.Buffer{}
			for i := 0; !stop.Load(); i++ {
				if i%64 == 0 && time.Now().After(deadline) {
					return
				}
				buf.Reset()
				ctx := verifF7Context()
				var (
					info *GraphQLResolveInfo
					err  error
				)
				requests.Add(1)
				p := verifF7Recover(func() {
					info, err = r.ArenaResolveGraphQLResponse(ctx, response, buf)
				})
				switch {
				case p != "" && strings.Contains(p, verifF7ClosedChanText):
					firstFail.CompareAndSwap(nil, "panic: "+p)
					if doubleClose.Add(1) >= 5 {
						stop.Store(true)
					}
				case p != "":
					otherFails.Add(1)
					firstFail.CompareAndSwap(nil, "panic: "+p)
				case err != nil || info == nil:
					otherFails.Add(1)
					firstFail.CompareAndSwap(nil, fmt.Sprintf("result (%v, %v)", info, err))
				case buf.String() != verifF7Expected:
					otherFails.Add(1)
					firstFail.CompareAndSwap(nil, "wrong output: "+buf.String())
				default:
					if info.ResolveDeduplicated {
						deduplicated.Add(1)
					}
				}
			}
		}()
	}
	wg.Wait()

	t.Logf("workers=%d GOMAXPROCS=%d requests=%d deduplicated=%d doubleClosePanics=%d otherFailures=%d",
		workers, runtime.GOMAXPROCS(0), requests.Load(), deduplicated.Load(), doubleClose.Load(), otherFails.Load())

	if n := doubleClose.Load(); n > 0 {
		t.Errorf("%d request(s) crashed inside ArenaResolveGraphQLResponse with %q; first: %v", n, verifF7ClosedChanText, firstFail.Load())
	}
	if n := otherFails.Load(); n > 0 {
		t.Errorf("%d other failure(s); first: %v", n, firstFail.Load())
	}
}
