package resolve

import "testing"

type verifF8Writer struct {
	completes, errors int
}

func (w *verifF8Writer) Write(p []byte) (int, error) { return len(p), nil }
func (w *verifF8Writer) Flush() error                { return nil }
func (w *verifF8Writer) Complete()                   { w.completes++ }
func (w *verifF8Writer) Heartbeat() error            { return nil }
func (w *verifF8Writer) Error(data []byte)           { w.errors++ }

// F8 (C12): handleTriggerComplete/handleTriggerError check `removed` outside writeMu and then call
// complete()/error(). If the subscription is removed in that window (removed=true, completed closed by
// done()), complete()/error() still wrote to the client after completion. The schedule is replayed
// here step by step: caller's check passed -> removal -> done() -> complete()/error().
func TestVerifF8NoWriteAfterCompletion(t *testing.T) {
	w := &verifF8Writer{}
	s := &subscriptionState{writer: w, completed: make(chan struct{})}
	// (1) the caller (handleTriggerComplete) has read removed == false here
	if s.removed.Load() {
		t.Fatal("setup")
	}
	// (2) concurrently the subscription is removed and its completion is signalled
	if !s.removed.CompareAndSwap(false, true) {
		t.Fatal("setup")
	}
	s.done()
	// (3) the caller proceeds with the stale check
	s.complete()
	s.error([]byte(`{}`))
	if w.completes != 0 || w.errors != 0 {
		t.Fatalf("wrote to the client after completion: Complete=%d Error=%d", w.completes, w.errors)
	}
}
