// Copy this file to: v2/pkg/introspection/   (package introspection)
// Run: cd v2 && GOFLAGS= go test -vet=off -count=1 -run TestHuntH3_1 ./pkg/introspection/
//
// Finding 1: the introspection generator panics on `@deprecated(reason: null)`.
// `reason` is declared `String = "No longer supported"`, i.e. it is nullable, so an explicit
// null is a valid argument: the element is deprecated and its deprecationReason is null.
package introspection

import (
	"fmt"
	"testing"

	"github.com/wundergraph/graphql-go-tools/v2/pkg/ast"
	"github.com/wundergraph/graphql-go-tools/v2/pkg/astparser"
	"github.com/wundergraph/graphql-go-tools/v2/pkg/asttransform"
	"github.com/wundergraph/graphql-go-tools/v2/pkg/astvalidation"
	"github.com/wundergraph/graphql-go-tools/v2/pkg/operationreport"
)

func huntH3_1_generate(t *testing.T, sdl string) (data *Data, panicked interface{}) {
	t.Helper()
	definition, report := astparser.ParseGraphqlDocumentString(sdl)
	if report.HasErrors() {
		t.Fatalf("schema does not parse: %s", report.Error())
	}
	if err := asttransform.MergeDefinitionWithBaseSchema(&definition); err != nil {
		t.Fatalf("merge with base schema: %v", err)
	}
	// the schema must be accepted by the library's own schema validation
	validationReport := operationreport.Report{}
	if state := astvalidation.DefaultDefinitionValidator().Validate(&definition, &validationReport); state != astvalidation.Valid {
		t.Fatalf("schema is not valid: %s", validationReport.Error())
	}
	return huntH3_1_generateDoc(&definition)
}

func huntH3_1_generateDoc(definition *ast.Document) (data *Data, panicked interface{}) {
	defer func() {
		if r := recover(); r != nil {
			panicked = r
		}
	}()
	report := operationreport.Report{}
	data = &Data{}
	NewGenerator().Generate(definition, &report, data)
	if report.HasErrors() {
		return nil, fmt.Sprintf("report: %s", report.Error())
	}
	return data, nil
}

func huntH3_1_field(data *Data, typeName, fieldName string) *Field {
	ty := data.Schema.TypeByName(typeName)
	if ty == nil {
		return nil
	}
	for i := range ty.Fields {
		if ty.Fields[i].Name == fieldName {
			return &ty.Fields[i]
		}
	}
	return nil
}

// control: a string reason and an omitted reason work
func TestHuntH3_1_Control(t *testing.T) {
	sdl := `type Query { a: String @deprecated(reason: "use b") b: String @deprecated c: String }`
	data, panicked := huntH3_1_generate(t, sdl)
	if panicked != nil {
		t.Fatalf("input schema: %s\nobserved: generator failed: %v\nexpected: introspection data", sdl, panicked)
	}
	a := huntH3_1_field(data, "Query", "a")
	if a == nil || !a.IsDeprecated || a.DeprecationReason == nil || *a.DeprecationReason != "use b" {
		t.Fatalf("Query.a: unexpected deprecation %+v", a)
	}
	b := huntH3_1_field(data, "Query", "b")
	if b == nil || !b.IsDeprecated || b.DeprecationReason == nil || *b.DeprecationReason != "No longer supported" {
		t.Fatalf("Query.b: unexpected deprecation %+v", b)
	}
}

func TestHuntH3_1_NullDeprecationReason(t *testing.T) {
	for _, sdl := range []string{
		`type Query { id: ID old: String @deprecated(reason: null) }`,
		`type Query { f(a: Int @deprecated(reason: null)): ID }`,
		`type Query { e: E } enum E { A B @deprecated(reason: null) }`,
	} {
		data, panicked := huntH3_1_generate(t, sdl)
		if panicked != nil {
			t.Errorf("input schema: %s\nobserved: the generator panics: %v\nexpected: introspection data in which the element has isDeprecated=true and deprecationReason=null", sdl, panicked)
			continue
		}
		if f := huntH3_1_field(data, "Query", "old"); f != nil {
			if !f.IsDeprecated || f.DeprecationReason != nil {
				t.Errorf("input schema: %s\nobserved: isDeprecated=%v deprecationReason=%v\nexpected: isDeprecated=true deprecationReason=null", sdl, f.IsDeprecated, f.DeprecationReason)
			}
		}
	}
}
