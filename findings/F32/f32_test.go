package plan

// Demonstration for finding F32 (property C09): `fields(includeDeprecated: $var)` of an introspection query answers
// differently when the client names its variable differently: the callback the planner builds looks the canonical name
// up in the raw request variables. copy to v2/pkg/engine/plan

import (
	"testing"

	"github.com/wundergraph/astjson"

	"github.com/wundergraph/graphql-go-tools/v2/pkg/astparser"
	"github.com/wundergraph/graphql-go-tools/v2/pkg/engine/resolve"
)

func TestVerifF32_IncludeDeprecatedDoesNotDependOnTheClientsVariableName(t *testing.T) {
	// the planned operation uses the canonical name $a
	operation, report := astparser.ParseGraphqlDocumentString(`query($a: Boolean!) { __type(name: "Thing") { fields(includeDeprecated: $a) { name } } }`)
	if report.HasErrors() {
		t.Fatal(report.Error())
	}
	v := &Visitor{Operation: &operation}
	fieldsRef := -1
	for ref := range operation.Fields {
		if operation.FieldNameString(ref) == "fields" {
			fieldsRef = ref
		}
	}
	skipItem := v.resolveSkipArrayItem(fieldsRef, "fields", "__Type")
	if skipItem == nil {
		t.Fatal("no skip callback")
	}
	deprecated := astjson.MustParseBytes([]byte(`{"name":"old","isDeprecated":true}`))
	for _, c := range []struct {
		name      string
		variables string
		remap     map[string]string
	}{
		{"client calls the variable a", `{"a":true}`, map[string]string{"a": "a"}},
		{"client calls the variable inc", `{"inc":true}`, map[string]string{"a": "inc"}},
	} {
		ctx := &resolve.Context{Variables: astjson.MustParseBytes([]byte(c.variables)), RemapVariables: c.remap}
		if skipItem(ctx, deprecated) {
			t.Errorf("F32 %s: the deprecated field is left out although includeDeprecated is true", c.name)
		}
	}
}
