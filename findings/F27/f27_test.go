package astnormalization

// Demonstration for finding F27 (property C03): injection of input field defaults into a list whose earlier items are
// null (or not objects) writes to the wrong position. copy to v2/pkg/astnormalization

import (
	"testing"

	"github.com/wundergraph/graphql-go-tools/v2/pkg/internal/unsafeparser"
	"github.com/wundergraph/graphql-go-tools/v2/pkg/operationreport"
)

func TestVerifF27_DefaultsOfListItemsAreWrittenToTheirOwnItem(t *testing.T) {
	definition := unsafeparser.ParseGraphqlDocumentStringWithBaseSchema(`
type Query { nodes(in: [In]): String }
input In { x: Int = 5, y: [Int] }
`)
	for _, c := range []struct{ name, variables, want string }{
		{"null item first", `{"v":[null,{"y":[1]}]}`, `{"v":[null,{"y":[1],"x":5}]}`},
		{"two null items first", `{"v":[null,null,{"y":[2]}]}`, `{"v":[null,null,{"y":[2],"x":5}]}`},
		{"control: objects only", `{"v":[{"y":[1]},{"y":[2]}]}`, `{"v":[{"y":[1],"x":5},{"y":[2],"x":5}]}`},
	} {
		operation := unsafeparser.ParseGraphqlDocumentString(`query Q($v: [In]) { nodes(in: $v) }`)
		operation.Input.Variables = []byte(c.variables)
		report := &operationreport.Report{}
		n := NewWithOpts(WithRemoveNotMatchingOperationDefinitions(), WithExtractVariables(), WithRemoveFragmentDefinitions(), WithInlineFragmentSpreads(), WithRemoveUnusedVariables())
		n.NormalizeNamedOperation(&operation, &definition, operation.OperationDefinitionNameBytes(0), report)
		if report.HasErrors() {
			t.Fatalf("%s: %s", c.name, report.Error())
		}
		if got := string(operation.Input.Variables); got != c.want {
			t.Errorf("F27 %s: variables %s, expected %s", c.name, got, c.want)
		}
	}
}
