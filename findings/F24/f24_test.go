package astvalidation

// Demonstration for finding F24 (property C04): field selection merging skips __typename: two different fields under one response name are accepted when one of them is __typename (KNOWN FINDING, not repaired)
// copy to v2/pkg/astvalidation

import (
	"testing"

	"github.com/wundergraph/graphql-go-tools/v2/pkg/astnormalization"
	"github.com/wundergraph/graphql-go-tools/v2/pkg/astparser"
	"github.com/wundergraph/graphql-go-tools/v2/pkg/asttransform"
	"github.com/wundergraph/graphql-go-tools/v2/pkg/operationreport"
)

const verifF24Schema = `
schema { query: Query }
type Query {
  ints(list: [Int!]): Int
  name: String
  pet: Pet
}
type Pet { name: String nick: String }
`

func verifF24Admit(t *testing.T, operation string) (bool, string) {
	t.Helper()
	definition, report := astparser.ParseGraphqlDocumentString(verifF24Schema)
	if report.HasErrors() {
		t.Fatalf("schema: %s", report.Error())
	}
	if err := asttransform.MergeDefinitionWithBaseSchema(&definition); err != nil {
		t.Fatal(err)
	}
	doc, report := astparser.ParseGraphqlDocumentString(operation)
	if report.HasErrors() {
		t.Fatalf("operation does not parse: %s", report.Error())
	}
	rep := operationreport.Report{}
	normalizer := astnormalization.NewWithOpts(
		astnormalization.WithRemoveFragmentDefinitions(),
		astnormalization.WithRemoveUnusedVariables(),
		astnormalization.WithInlineFragmentSpreads(),
	)
	normalizer.NormalizeOperation(&doc, &definition, &rep)
	if rep.HasErrors() {
		return false, "normalization: " + rep.Error()
	}
	state := DefaultOperationValidator().Validate(&doc, &definition, &rep)
	return state == Valid, rep.Error()
}

func TestVerifF24_TypenameTakesPartInFieldMerging(t *testing.T) {
	for _, c := range []struct{ name, op string }{
		{"__typename and another field under one response name", `{ pet { x: __typename x: name } }`},
		{"other order", `{ pet { x: name x: __typename } }`},
	} {
		ok, why := verifF24Admit(t, c.op)
		if ok {
			t.Errorf("%s: accepted: %s", c.name, c.op)
		} else {
			t.Logf("%s: rejected (%s)", c.name, why)
		}
	}
}
