package astnormalization

// Demonstration for finding F35 (property C03): the default value of a variable is lost when the variable is used
// inside a list or object literal. copy to v2/pkg/astnormalization

import (
	"testing"

	"github.com/wundergraph/graphql-go-tools/v2/pkg/internal/unsafeparser"
	"github.com/wundergraph/graphql-go-tools/v2/pkg/operationreport"
)

func TestVerifF35_VariableDefaultIsUsedInsideLiterals(t *testing.T) {
	definition := unsafeparser.ParseGraphqlDocumentStringWithBaseSchema(`
type Query { f(a: [Int], o: In): String h(i: Int): String }
input In { x: Int = 5, y: [Int] }
`)
	for _, c := range []struct{ name, op, variables, want string }{
		{"inside a list literal", `query Q($v: Int = 7) { f(a: [$v]) }`, ``, `{"a":[7]}`},
		{"inside a list literal and on its own", `query Q($v: Int = 7) { f(a: [$v]) h(i: $v) }`, ``, `{"v":7,"a":[7]}`},
		{"inside an object literal", `query Q($v: Int = 7) { f(o: {x: $v}) }`, ``, `{"a":{"x":7}}`},
		{"control: provided value wins", `query Q($v: Int = 7) { f(a: [$v]) }`, `{"v":1}`, `{"a":[1]}`},
		{"control: no default, not provided", `query Q($v: Int) { f(a: [$v]) }`, ``, `{"a":[null]}`},
	} {
		operation := unsafeparser.ParseGraphqlDocumentString(c.op)
		if c.variables != "" {
			operation.Input.Variables = []byte(c.variables)
		}
		report := &operationreport.Report{}
		n := NewWithOpts(WithRemoveNotMatchingOperationDefinitions(), WithExtractVariables(), WithRemoveFragmentDefinitions(), WithInlineFragmentSpreads(), WithRemoveUnusedVariables())
		n.NormalizeNamedOperation(&operation, &definition, operation.OperationDefinitionNameBytes(0), report)
		if report.HasErrors() {
			t.Fatalf("%s: %s", c.name, report.Error())
		}
		if got := string(operation.Input.Variables); got != c.want {
			t.Errorf("F35 %s: variables %s, expected %s", c.name, got, c.want)
		}
	}
}
