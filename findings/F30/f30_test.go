package astnormalization

// Demonstration for finding F30 (property C03): with three or more directives on a node, the second @skip/@include is
// not evaluated in the first normalization run (normalization is not idempotent). copy to v2/pkg/astnormalization

import (
	"testing"

	"github.com/wundergraph/graphql-go-tools/v2/pkg/internal/unsafeparser"
	"github.com/wundergraph/graphql-go-tools/v2/pkg/internal/unsafeprinter"
	"github.com/wundergraph/graphql-go-tools/v2/pkg/operationreport"
)

func verifF30Normalize(t *testing.T, doc string) string {
	t.Helper()
	definition := unsafeparser.ParseGraphqlDocumentStringWithBaseSchema(`type Query { f: String g: String } directive @custom on FIELD | INLINE_FRAGMENT`)
	operation := unsafeparser.ParseGraphqlDocumentString(doc)
	report := &operationreport.Report{}
	n := NewWithOpts(WithRemoveNotMatchingOperationDefinitions(), WithExtractVariables(), WithRemoveFragmentDefinitions(), WithInlineFragmentSpreads(), WithRemoveUnusedVariables())
	n.NormalizeNamedOperation(&operation, &definition, operation.OperationDefinitionNameBytes(0), report)
	if report.HasErrors() {
		t.Fatalf("%s: %s", doc, report.Error())
	}
	return unsafeprinter.Print(&operation)
}

func TestVerifF30_EverySkipAndIncludeOfANodeIsEvaluated(t *testing.T) {
	for _, c := range []struct{ name, doc, want string }{
		{"include true, skip true, custom", `query Q { f @include(if: true) @skip(if: true) @custom g }`, `query Q {g}`},
		{"custom last, skip in the middle", `query Q { f @skip(if: false) @include(if: false) @custom g }`, `query Q {g}`},
		{"control: two directives", `query Q { f @include(if: true) @skip(if: true) g }`, `query Q {g}`},
	} {
		once := verifF30Normalize(t, c.doc)
		twice := verifF30Normalize(t, once)
		if once != c.want {
			t.Errorf("F30 %s: normalized to %q, expected %q", c.name, once, c.want)
		}
		if twice != once {
			t.Errorf("F30 %s: not idempotent: %q, then %q", c.name, once, twice)
		}
	}
}
