// Demonstration for finding 5 of hunt H4.
// Copy this file to execution/engine/ (package engine of the module github.com/wundergraph/graphql-go-tools/execution)
// and run:  cd execution && GOFLAGS= go test -vet=off -count=1 -run 'TestHuntH4_5_' ./engine/
//
// The file is self-contained: it brings its own in-memory subgraphs (they really execute the
// subgraph queries sent by the gateway), a frame recording writer and a client-side
// reconstruction of the incremental stream. All helper names carry the prefix hh5.

package engine

// hh5 harness: in-memory subgraphs that really execute the subgraph queries the
// gateway sends, a frame-recording writer, and a reconstruction of the incremental stream.

import (
	"bytes"
	"context"
	"encoding/json"
	"fmt"
	"io"
	"net/http"
	"reflect"
	"regexp"
	"sort"
	"strings"
	"sync"
	"testing"
	"time"

	"github.com/jensneuse/abstractlogger"
	"github.com/stretchr/testify/require"

	"github.com/wundergraph/graphql-go-tools/execution/graphql"
	"github.com/wundergraph/graphql-go-tools/v2/pkg/ast"
	"github.com/wundergraph/graphql-go-tools/v2/pkg/astparser"
	"github.com/wundergraph/graphql-go-tools/v2/pkg/engine/datasource/graphql_datasource"
	"github.com/wundergraph/graphql-go-tools/v2/pkg/engine/plan"
	"github.com/wundergraph/graphql-go-tools/v2/pkg/engine/resolve"
)

// ---------- in-memory subgraph ----------

type hh5Obj = map[string]any

// hh5NullErr as a field value: the subgraph returns null for the field and reports an error with the path.
type hh5NullErr string

type hh5Fault struct {
	status   int    // http status (0 = 200)
	body     string // raw body to send instead of the computed one
	useBody  bool
	netError bool // transport error
}

type hh5Req struct {
	host string
	body string
}

type hh5Sub struct {
	host     string
	sdl      string
	root     hh5Obj
	entities map[string]func(rep hh5Obj) any
	abstract map[string][]string
	meta     *plan.DataSourceMetadata
}

type hh5Env struct {
	schema string
	subs   []*hh5Sub

	mu       sync.Mutex
	requests []hh5Req
	// fault decides per request (called under mu, idx = global request index)
	fault func(idx int, r hh5Req) *hh5Fault
	// delay decides how long a request is held before answering
	delay func(idx int, r hh5Req) time.Duration
	// validateRequired enables ValidateRequiredExternalFields in planner and resolver
	validateRequired bool
}

type hh5OMap struct {
	keys []string
	vals map[string]any
}

func (o *hh5OMap) set(k string, v any) {
	if o.vals == nil {
		o.vals = map[string]any{}
	}
	if old, ok := o.vals[k]; ok {
		o.vals[k] = hh5MergeOut(old, v)
		return
	}
	o.keys = append(o.keys, k)
	o.vals[k] = v
}

func hh5MergeOut(a, b any) any {
	ao, aok := a.(*hh5OMap)
	bo, bok := b.(*hh5OMap)
	if aok && bok {
		for _, k := range bo.keys {
			ao.set(k, bo.vals[k])
		}
		return ao
	}
	al, aok := a.([]any)
	bl, bok := b.([]any)
	if aok && bok && len(al) == len(bl) {
		for i := range al {
			al[i] = hh5MergeOut(al[i], bl[i])
		}
		return al
	}
	return a
}

func (o *hh5OMap) MarshalJSON() ([]byte, error) {
	buf := &bytes.Buffer{}
	buf.WriteByte('{')
	for i, k := range o.keys {
		if i > 0 {
			buf.WriteByte(',')
		}
		kb, _ := json.Marshal(k)
		buf.Write(kb)
		buf.WriteByte(':')
		vb, err := json.Marshal(o.vals[k])
		if err != nil {
			return nil, err
		}
		buf.Write(vb)
	}
	buf.WriteByte('}')
	return buf.Bytes(), nil
}

type hh5Exec struct {
	sub  *hh5Sub
	doc  *ast.Document
	vars map[string]any
	errs []any
}

func (e *hh5Exec) typeMatches(cond string, obj hh5Obj) bool {
	tn, _ := obj["__typename"].(string)
	if cond == "" || cond == tn {
		return true
	}
	for _, c := range e.sub.abstract[cond] {
		if c == tn {
			return true
		}
	}
	return false
}

func (e *hh5Exec) value(v any, fieldRef int, path []any) any {
	switch x := v.(type) {
	case nil:
		return nil
	case hh5NullErr:
		e.errs = append(e.errs, map[string]any{"message": string(x), "path": append([]any{}, path...)})
		return nil
	case func() any:
		return e.value(x(), fieldRef, path)
	case hh5Obj:
		if !e.doc.FieldHasSelections(fieldRef) {
			return nil
		}
		out := &hh5OMap{}
		e.selSet(e.doc.Fields[fieldRef].SelectionSet, x, out, path)
		return out
	case []any:
		res := make([]any, len(x))
		for i := range x {
			res[i] = e.value(x[i], fieldRef, append(path, i))
		}
		return res
	default:
		return v
	}
}

func (e *hh5Exec) selSet(ref int, obj hh5Obj, out *hh5OMap, path []any) {
	for _, selRef := range e.doc.SelectionSets[ref].SelectionRefs {
		sel := e.doc.Selections[selRef]
		switch sel.Kind {
		case ast.SelectionKindField:
			name := e.doc.FieldNameString(sel.Ref)
			key := e.doc.FieldAliasOrNameString(sel.Ref)
			if name == "__typename" {
				out.set(key, obj["__typename"])
				continue
			}
			if name == "_entities" {
				reps, _ := e.vars["representations"].([]any)
				res := make([]any, len(reps))
				for i, r := range reps {
					rep, _ := r.(map[string]any)
					tn, _ := rep["__typename"].(string)
					var ent any
					if f, ok := e.sub.entities[tn]; ok {
						ent = f(rep)
					}
					res[i] = e.value(ent, sel.Ref, append(path, key, i))
				}
				out.set(key, res)
				continue
			}
			v, ok := obj[name]
			if !ok {
				e.errs = append(e.errs, map[string]any{"message": fmt.Sprintf("mock %s: no data for field %s.%s", e.sub.host, obj["__typename"], name)})
			}
			out.set(key, e.value(v, sel.Ref, append(path, key)))
		case ast.SelectionKindInlineFragment:
			cond := e.doc.InlineFragmentTypeConditionNameString(sel.Ref)
			if !e.typeMatches(cond, obj) {
				continue
			}
			e.selSet(e.doc.InlineFragments[sel.Ref].SelectionSet, obj, out, path)
		}
	}
}

func (s *hh5Sub) execute(body string) (string, error) {
	var req struct {
		Query     string         `json:"query"`
		Variables map[string]any `json:"variables"`
	}
	if err := json.Unmarshal([]byte(body), &req); err != nil {
		return "", err
	}
	doc, report := astparser.ParseGraphqlDocumentString(req.Query)
	if report.HasErrors() {
		return "", fmt.Errorf("mock %s cannot parse %q: %s", s.host, req.Query, report.Error())
	}
	e := &hh5Exec{sub: s, doc: &doc, vars: req.Variables}
	out := &hh5OMap{}
	for _, n := range doc.RootNodes {
		if n.Kind != ast.NodeKindOperationDefinition {
			continue
		}
		root := hh5Obj{"__typename": "Query"}
		for k, v := range s.root {
			root[k] = v
		}
		e.selSet(doc.OperationDefinitions[n.Ref].SelectionSet, root, out, nil)
	}
	resp := &hh5OMap{}
	if len(e.errs) > 0 {
		resp.set("errors", e.errs)
	}
	resp.set("data", out)
	b, err := json.Marshal(resp)
	return string(b), err
}

type hh5RT struct {
	env *hh5Env
	sub *hh5Sub
}

func (rt *hh5RT) RoundTrip(req *http.Request) (*http.Response, error) {
	var body []byte
	if req.Body != nil {
		body, _ = io.ReadAll(req.Body)
		req.Body.Close()
	}
	r := hh5Req{host: rt.sub.host, body: string(body)}
	rt.env.mu.Lock()
	idx := len(rt.env.requests)
	rt.env.requests = append(rt.env.requests, r)
	var fault *hh5Fault
	if rt.env.fault != nil {
		fault = rt.env.fault(idx, r)
	}
	var d time.Duration
	if rt.env.delay != nil {
		d = rt.env.delay(idx, r)
	}
	rt.env.mu.Unlock()
	if d > 0 {
		select {
		case <-time.After(d):
		case <-req.Context().Done():
			return nil, req.Context().Err()
		}
	}
	if fault != nil && fault.netError {
		return nil, fmt.Errorf("mock %s: connection refused", rt.sub.host)
	}
	status := 200
	var out string
	if fault != nil && fault.useBody {
		out = fault.body
	} else {
		var err error
		out, err = rt.sub.execute(string(body))
		if err != nil {
			return &http.Response{StatusCode: 400, Body: io.NopCloser(strings.NewReader(err.Error()))}, nil
		}
	}
	if fault != nil && fault.status != 0 {
		status = fault.status
	}
	return &http.Response{StatusCode: status, Body: io.NopCloser(strings.NewReader(out)), Header: http.Header{"Content-Type": []string{"application/json"}}}, nil
}

// ---------- frame recording writer ----------

type hh5Writer struct {
	mu        sync.Mutex
	buf       bytes.Buffer
	frames    []string
	completes int
	events    []string
}

func (w *hh5Writer) Write(p []byte) (int, error) {
	w.mu.Lock()
	defer w.mu.Unlock()
	if w.completes > 0 {
		w.events = append(w.events, "write after complete")
	}
	return w.buf.Write(p)
}
func (w *hh5Writer) Flush() error {
	w.mu.Lock()
	defer w.mu.Unlock()
	if w.completes > 0 {
		w.events = append(w.events, "flush after complete")
	}
	w.frames = append(w.frames, w.buf.String())
	w.buf.Reset()
	return nil
}
func (w *hh5Writer) Complete() {
	w.mu.Lock()
	defer w.mu.Unlock()
	w.completes++
}
func (w *hh5Writer) Heartbeat() error { return nil }
func (w *hh5Writer) Error(data []byte) {
	w.mu.Lock()
	defer w.mu.Unlock()
	w.events = append(w.events, "error: "+string(data))
}

// ---------- running ----------

type hh5Result struct {
	frames   []string // flushed frames
	rest     string   // unflushed remainder (synchronous responses)
	err      error
	requests []hh5Req
	events   []string
	complete int
}

func (e *hh5Env) newEngine(t *testing.T, ctx context.Context) *ExecutionEngine {
	t.Helper()
	schema, err := graphql.NewSchemaFromString(e.schema)
	require.NoError(t, err)
	var dss []plan.DataSource
	for i, s := range e.subs {
		client := &http.Client{Transport: &hh5RT{env: e, sub: s}}
		factory, err := graphql_datasource.NewFactory(context.Background(), client, graphql_datasource.NewGraphQLSubscriptionClient(context.Background(),
			graphql_datasource.WithUpgradeClient(client), graphql_datasource.WithStreamingClient(client)))
		require.NoError(t, err)
		sc, err := graphql_datasource.NewSchemaConfiguration(s.sdl, &graphql_datasource.FederationConfiguration{Enabled: true, ServiceSDL: s.sdl})
		require.NoError(t, err)
		cfg, err := graphql_datasource.NewConfiguration(graphql_datasource.ConfigurationInput{
			Fetch:               &graphql_datasource.FetchConfiguration{URL: "https://" + s.host + "/", Method: "POST"},
			SchemaConfiguration: sc,
		})
		require.NoError(t, err)
		ds, err := plan.NewDataSourceConfigurationWithName[graphql_datasource.Configuration](fmt.Sprintf("id-%d", i+1), s.host, factory, s.meta, cfg)
		require.NoError(t, err)
		dss = append(dss, ds)
	}
	engineConf := NewConfiguration(schema)
	engineConf.SetDataSources(dss)
	engineConf.plannerConfig.ValidateRequiredExternalFields = e.validateRequired
	engineConf.plannerConfig.BuildFetchReasons = e.validateRequired
	engine, err := NewExecutionEngine(ctx, abstractlogger.Noop{}, engineConf, resolve.ResolverOptions{MaxConcurrency: 1024, ValidateRequiredExternalFields: e.validateRequired})
	require.NoError(t, err)
	return engine
}

func (e *hh5Env) run(t *testing.T, query string, variables string) hh5Result {
	t.Helper()
	ctx, cancel := context.WithCancel(context.Background())
	defer cancel()
	engine := e.newEngine(t, ctx)
	return e.runOn(t, engine, query, variables)
}

func (e *hh5Env) runOn(t *testing.T, engine *ExecutionEngine, query string, variables string) hh5Result {
	t.Helper()
	e.mu.Lock()
	e.requests = nil
	e.mu.Unlock()
	op := graphql.Request{Query: query}
	if variables != "" {
		op.Variables = json.RawMessage(variables)
	}
	w := &hh5Writer{}
	done := make(chan error, 1)
	go func() {
		defer func() {
			if r := recover(); r != nil {
				done <- fmt.Errorf("PANIC: %v", r)
			}
		}()
		done <- engine.Execute(context.Background(), &op, w)
	}()
	var err error
	select {
	case err = <-done:
	case <-time.After(20 * time.Second):
		err = fmt.Errorf("TIMEOUT: Execute did not return within 20s")
	}
	w.mu.Lock()
	defer w.mu.Unlock()
	e.mu.Lock()
	defer e.mu.Unlock()
	return hh5Result{
		frames:   append([]string{}, w.frames...),
		rest:     w.buf.String(),
		err:      err,
		requests: append([]hh5Req{}, e.requests...),
		events:   append([]string{}, w.events...),
		complete: w.completes,
	}
}

// ---------- reconstruction of the incremental stream ----------

type hh5Recon struct {
	data       any
	errors     []any
	violations []string
}

func hh5DeepMerge(dst, src any) any {
	d, dok := dst.(map[string]any)
	s, sok := src.(map[string]any)
	if dok && sok {
		for k, v := range s {
			if old, ok := d[k]; ok {
				d[k] = hh5DeepMerge(old, v)
			} else {
				d[k] = v
			}
		}
		return d
	}
	dl, dok := dst.([]any)
	sl, sok := src.([]any)
	if dok && sok && len(dl) == len(sl) {
		for i := range dl {
			dl[i] = hh5DeepMerge(dl[i], sl[i])
		}
		return dl
	}
	return src
}

func hh5Reconstruct(frames []string) hh5Recon {
	var rc hh5Recon
	viol := func(f string, a ...any) { rc.violations = append(rc.violations, fmt.Sprintf(f, a...)) }
	if len(frames) == 0 {
		viol("no frames")
		return rc
	}
	pending := map[string][]any{}
	completed := map[string]int{}
	for i, fr := range frames {
		var m map[string]any
		dec := json.NewDecoder(strings.NewReader(fr))
		dec.UseNumber()
		if err := dec.Decode(&m); err != nil {
			viol("frame %d is not one JSON object: %v: %s", i, err, fr)
			continue
		}
		if dec.More() {
			viol("frame %d has trailing content: %s", i, fr)
		}
		hasNext, hasHasNext := m["hasNext"].(bool)
		if !hasHasNext {
			viol("frame %d has no hasNext", i)
		}
		if i < len(frames)-1 && !hasNext {
			viol("frame %d of %d has hasNext:false but is not last", i, len(frames))
		}
		if i == len(frames)-1 && hasNext {
			viol("last frame %d has hasNext:true", i)
		}
		if i == 0 {
			rc.data = m["data"]
			if es, ok := m["errors"].([]any); ok {
				rc.errors = append(rc.errors, es...)
			}
		} else if _, ok := m["data"]; ok {
			viol("frame %d has top-level data", i)
		}
		if ps, ok := m["pending"].([]any); ok {
			for _, p := range ps {
				pm := p.(map[string]any)
				id, _ := pm["id"].(string)
				if _, dup := pending[id]; dup {
					viol("frame %d: id %s announced twice", i, id)
				}
				path, _ := pm["path"].([]any)
				pending[id] = path
			}
		}
		if incs, ok := m["incremental"].([]any); ok {
			for _, inc := range incs {
				im := inc.(map[string]any)
				id, _ := im["id"].(string)
				base, ok := pending[id]
				if !ok {
					viol("frame %d: incremental for unannounced id %s", i, id)
					continue
				}
				if completed[id] > 0 {
					viol("frame %d: incremental for already completed id %s", i, id)
				}
				if es, ok := im["errors"].([]any); ok {
					rc.errors = append(rc.errors, es...)
				}
				full := append([]any{}, base...)
				if sp, ok := im["subPath"].([]any); ok {
					full = append(full, sp...)
				}
				// navigate
				var cur any = rc.data
				okNav := true
				for _, seg := range full {
					switch s := seg.(type) {
					case string:
						mm, ok := cur.(map[string]any)
						if !ok {
							okNav = false
						} else {
							cur, ok = mm[s]
							if !ok {
								okNav = false
							}
						}
					case json.Number:
						ll, ok := cur.([]any)
						n, _ := s.Int64()
						if !ok || int(n) >= len(ll) {
							okNav = false
						} else {
							cur = ll[n]
						}
					default:
						okNav = false
					}
					if !okNav {
						break
					}
				}
				target, isObj := cur.(map[string]any)
				if !okNav || !isObj {
					viol("frame %d: incremental id %s path %v does not address an object in the data so far", i, id, full)
					continue
				}
				hh5DeepMerge(target, im["data"])
			}
		}
		if cs, ok := m["completed"].([]any); ok {
			for _, c := range cs {
				cm := c.(map[string]any)
				id, _ := cm["id"].(string)
				if _, ok := pending[id]; !ok {
					viol("frame %d: completed unannounced id %s", i, id)
				}
				completed[id]++
				if completed[id] > 1 {
					viol("frame %d: id %s completed twice", i, id)
				}
				if es, ok := cm["errors"].([]any); ok {
					rc.errors = append(rc.errors, es...)
				}
			}
		}
	}
	var ids []string
	for id := range pending {
		ids = append(ids, id)
	}
	sort.Strings(ids)
	for _, id := range ids {
		if completed[id] == 0 {
			viol("id %s announced but never completed", id)
		}
	}
	return rc
}

var hh5DeferRe = regexp.MustCompile(`@defer(\s*\([^)]*\))?`)

func hh5StripDefer(q string) string { return hh5DeferRe.ReplaceAllString(q, "") }

func hh5Parse(t *testing.T, s string) map[string]any {
	t.Helper()
	var m map[string]any
	dec := json.NewDecoder(strings.NewReader(s))
	dec.UseNumber()
	require.NoError(t, dec.Decode(&m), "not JSON: %q", s)
	return m
}

func hh5JSON(v any) string {
	b, _ := json.Marshal(v)
	return string(b)
}

// hh5CheckDefer runs q with and without @defer and returns a list of problems.
func (e *hh5Env) checkDefer(t *testing.T, q, vars string) (problems []string, deferred hh5Result) {
	t.Helper()
	plain := e.run(t, hh5StripDefer(q), vars)
	if plain.err != nil {
		return []string{"plain query failed: " + plain.err.Error()}, plain
	}
	plainOut := plain.rest
	if len(plain.frames) > 0 {
		plainOut = plain.frames[0]
	}
	pm := hh5Parse(t, plainOut)
	deferred = e.run(t, q, vars)
	if deferred.err != nil {
		problems = append(problems, "deferred query failed: "+deferred.err.Error())
		return
	}
	if len(deferred.frames) == 0 {
		// not a deferred plan
		dm := hh5Parse(t, deferred.rest)
		if !reflect.DeepEqual(dm["data"], pm["data"]) {
			problems = append(problems, fmt.Sprintf("sync data differs: %s vs plain %s", deferred.rest, plainOut))
		}
		return
	}
	if deferred.rest != "" {
		problems = append(problems, "unflushed remainder: "+deferred.rest)
	}
	if deferred.complete != 1 {
		problems = append(problems, fmt.Sprintf("Complete called %d times", deferred.complete))
	}
	problems = append(problems, deferred.events...)
	rc := hh5Reconstruct(deferred.frames)
	problems = append(problems, rc.violations...)
	if !reflect.DeepEqual(rc.data, pm["data"]) {
		problems = append(problems, fmt.Sprintf("reconstructed data differs:\n  reconstructed: %s\n  plain:         %s", hh5JSON(rc.data), hh5JSON(pm["data"])))
	}
	if pe, ok := pm["errors"]; ok && len(rc.errors) == 0 {
		problems = append(problems, fmt.Sprintf("plain has errors %s, deferred none", hh5JSON(pe)))
	}
	if _, ok := pm["errors"]; !ok && len(rc.errors) > 0 {
		problems = append(problems, fmt.Sprintf("deferred has errors %s, plain none", hh5JSON(rc.errors)))
	}
	return
}

// ---------- finding 5 ----------

func hh5Scenario() *hh5Env {
	sdl := `
type Query { row: [Cell!]! matrix: [[Cell!]!]! board: Board }
type Board { id: ID! rows: [[Cell]] }
type Cell { x: Int! y: Int! label: String }
`
	cell := func(x, y int, l any) hh5Obj {
		return hh5Obj{"__typename": "Cell", "x": x, "y": y, "label": l}
	}
	main := &hh5Sub{
		host: "main", sdl: sdl,
		root: hh5Obj{
			"row":    []any{cell(0, 0, "a"), cell(0, 1, nil)},
			"matrix": []any{[]any{cell(0, 0, "a"), cell(0, 1, nil)}, []any{}, []any{cell(2, 0, "c")}},
			"board":  hh5Obj{"__typename": "Board", "id": "b", "rows": []any{[]any{cell(0, 0, "a"), nil}, nil, []any{cell(2, 0, "c")}}},
		},
		meta: &plan.DataSourceMetadata{
			RootNodes: []plan.TypeField{{TypeName: "Query", FieldNames: []string{"row", "matrix", "board"}}},
			ChildNodes: []plan.TypeField{
				{TypeName: "Board", FieldNames: []string{"id", "rows"}},
				{TypeName: "Cell", FieldNames: []string{"x", "y", "label"}},
			},
		},
	}
	return &hh5Env{schema: sdl, subs: []*hh5Sub{main}}
}

func hh5Check(t *testing.T, queries []string) {
	for _, q := range queries {
		problems, res := hh5Scenario().checkDefer(t, q, "")
		if len(problems) > 0 {
			t.Errorf("query %s\n  problems:\n    %s\n  observed frames:\n    %s\n  subgraph requests: %v", q, strings.Join(problems, "\n    "), strings.Join(res.frames, "\n    "), res.requests)
		}
	}
}

// Control: a fragment inside a flat list, and a whole list of lists inside a fragment, work.
func TestHuntH4_5_Control(t *testing.T) {
	hh5Check(t, []string{
		`{ row { x ... @defer { y } } }`,
		`{ ... @defer { matrix { x y } } }`,
		`{ board { id ... @defer { rows { x y } } } }`,
	})
}

// A fragment on the items of a list of lists. The deferred request is sent and answered, but the
// renderer never looks for deferred fields below a nested list, so the data is dropped silently.
// Observed: {"incremental":[],"completed":[{"id":"1"}],"hasNext":false} - y never arrives, no error.
func TestHuntH4_5_DeferBelowListOfLists(t *testing.T) {
	hh5Check(t, []string{
		`{ matrix { x ... @defer { y } } }`,
		`{ matrix { x ... @defer { label } ... @defer { y } } }`,
		`{ board { id rows { x ... @defer { y } } } }`,
		`{ ... @defer { matrix { x ... @defer { y } } } }`,
	})
}
