// Copy to: v2/pkg/engine/datasource/graphql_datasource/  (package graphql_datasource, internal test)
// Run:     cd v2 && GOFLAGS= go test -vet=off -count=1 -run TestHuntH2_3 ./pkg/engine/datasource/graphql_datasource/
//
// Property C15, last sentence: "A variable the client omitted stays omitted rather than becoming null,
// and an explicit null stays null."
//
// Defect: for queries/mutations Source.Load calls compactAndUnNullVariables, which removes the variables listed
// under "undefined" in the rendered fetch input. SubscriptionSource.Start gets an input rendered by the very same
// InputTemplate.Render (resolve.go: subscription.Trigger.InputTemplate.Render), i.e. with `"a":null` in
// body.variables and "undefined":["a"], but never removes the undefined variables: the subgraph receives an
// explicit null for a variable the client did not send, which overrides the default value of the argument
// (`foo(bar: String = "dflt")`) on the subgraph.
package graphql_datasource

import (
	"bytes"
	"context"
	"encoding/json"
	"io"
	"net/http"
	"net/http/httptest"
	"testing"

	"github.com/wundergraph/astjson"

	"github.com/wundergraph/graphql-go-tools/v2/pkg/engine/resolve"
)

type huntH2_3Client struct{ got *GraphQLSubscriptionOptions }

func (c *huntH2_3Client) Subscribe(_ *resolve.Context, options GraphQLSubscriptionOptions, _ resolve.SubscriptionUpdater) error {
	*c.got = options
	return nil
}

// huntH2_3Render renders the trigger input exactly as the planner lays it out for
// `subscription($a: String){foo(bar: $a)}` (see "Subscription with variables" in graphql_datasource_test.go)
// and as the resolver renders it (InputTemplate.Render).
func huntH2_3Render(t *testing.T, url, clientVariables string) []byte {
	t.Helper()
	tmpl := resolve.InputTemplate{Segments: []resolve.TemplateSegment{
		{SegmentType: resolve.StaticSegmentType, Data: []byte(`{"method":"POST","url":"` + url + `","body":{"query":"subscription($a: String){foo(bar: $a)}","variables":{"a":`)},
		{SegmentType: resolve.VariableSegmentType, VariableKind: resolve.ContextVariableKind, VariableSourcePath: []string{"a"}, Renderer: resolve.NewJSONVariableRenderer()},
		{SegmentType: resolve.StaticSegmentType, Data: []byte(`}}}`)},
	}}
	ctx := resolve.NewContext(context.Background())
	ctx.Variables = astjson.MustParse(clientVariables)
	buf := &bytes.Buffer{}
	if err := tmpl.Render(ctx, nil, buf); err != nil {
		t.Fatal(err)
	}
	return append([]byte(nil), buf.Bytes()...)
}

func huntH2_3SubscriptionVariables(t *testing.T, input []byte) string {
	t.Helper()
	var got GraphQLSubscriptionOptions
	src := &SubscriptionSource{client: &huntH2_3Client{got: &got}}
	if err := src.Start(resolve.NewContext(context.Background()), nil, append([]byte(nil), input...), nil); err != nil {
		t.Fatal(err)
	}
	return string(got.Body.Variables)
}

func huntH2_3HasKey(t *testing.T, variables, key string) (present bool, value string) {
	t.Helper()
	var m map[string]json.RawMessage
	if err := json.Unmarshal([]byte(variables), &m); err != nil {
		t.Fatalf("upstream variables are not a JSON object: %s", variables)
	}
	v, ok := m[key]
	return ok, string(v)
}

func TestHuntH2_3_SubscriptionOmittedVariableBecomesNull(t *testing.T) {
	input := huntH2_3Render(t, "http://sub", `{}`)
	got := huntH2_3SubscriptionVariables(t, input)
	if present, v := huntH2_3HasKey(t, got, "a"); present {
		t.Errorf("client variables: {} ($a omitted)\n rendered trigger input: %s\n observed variables sent upstream by the subscription: %s (a = %s)\n expected: a stays omitted: {}", input, got, v)
	}
}

// Controls: pass on the unchanged code.
func TestHuntH2_3_Control(t *testing.T) {
	// explicit null stays null, a value stays the value
	got := huntH2_3SubscriptionVariables(t, huntH2_3Render(t, "http://sub", `{"a":null}`))
	if present, v := huntH2_3HasKey(t, got, "a"); !present || v != "null" {
		t.Errorf("explicit null: got %s", got)
	}
	got = huntH2_3SubscriptionVariables(t, huntH2_3Render(t, "http://sub", `{"a":"x"}`))
	if present, v := huntH2_3HasKey(t, got, "a"); !present || v != `"x"` {
		t.Errorf("value: got %s", got)
	}

	// the query path (Source.Load) on the very same rendered input does keep the variable omitted
	var body string
	srv := httptest.NewServer(http.HandlerFunc(func(w http.ResponseWriter, r *http.Request) {
		b, _ := io.ReadAll(r.Body)
		body = string(b)
		_, _ = w.Write([]byte(`{"data":{"foo":1}}`))
	}))
	defer srv.Close()
	q := &Source{httpClient: http.DefaultClient}
	if _, err := q.Load(context.Background(), nil, huntH2_3Render(t, srv.URL, `{}`)); err != nil {
		t.Fatal(err)
	}
	var req struct{ Variables json.RawMessage }
	_ = json.Unmarshal([]byte(body), &req)
	if present, _ := huntH2_3HasKey(t, string(req.Variables), "a"); present {
		t.Errorf("query path: omitted variable was sent: %s", body)
	}
}
