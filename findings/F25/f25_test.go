package astnormalization

// Probe for C03: variable renaming (VariablesMapper) must keep distinct variables distinct.

import (
	"testing"

	"github.com/wundergraph/graphql-go-tools/v2/pkg/internal/unsafeparser"
	"github.com/wundergraph/graphql-go-tools/v2/pkg/internal/unsafeprinter"
	"github.com/wundergraph/graphql-go-tools/v2/pkg/operationreport"
)

func verifF25Map(t *testing.T, input string) (string, map[string]string) {
	t.Helper()
	definition := unsafeparser.ParseGraphqlDocumentStringWithBaseSchema(`
	  type Object { id: ID! name: String! }
	  type Query { object(id: ID!): Object pair(x: Int, y: Int): Int list(l: [Int], y: Int): Int }
	  type Mutation { upload(file: Upload!, name: String!): Object! }`)
	operation := unsafeparser.ParseGraphqlDocumentString(input)
	report := &operationreport.Report{}
	normalizer := NewWithOpts(WithRemoveNotMatchingOperationDefinitions(), WithInlineFragmentSpreads(), WithRemoveFragmentDefinitions(), WithRemoveUnusedVariables())
	normalizer.NormalizeNamedOperation(&operation, &definition, operation.OperationDefinitionNameBytes(0), report)
	if report.HasErrors() {
		t.Fatalf("normalize: %s", report.Error())
	}
	NewVariablesNormalizer().NormalizeOperation(&operation, &definition, report)
	if report.HasErrors() {
		t.Fatalf("variables normalize: %s", report.Error())
	}
	mapping := NewVariablesMapper().NormalizeOperation(&operation, &definition, report)
	if report.HasErrors() {
		t.Fatalf("map: %s", report.Error())
	}
	return unsafeprinter.Print(&operation), mapping
}

func TestVerifF25_RenamingKeepsDistinctVariablesDistinct(t *testing.T) {
	for _, c := range []struct{ name, op, bad string }{
		{"upload variable named like the first generated name", `mutation M($a: Upload!, $n: String!) { upload(file: $a, name: $n) { id } }`, "upload(file: $a, name: $a)"},
		{"variable used inside a list literal keeps its name", `query Q($a: Int, $n: Int) { list(l: [$a], y: $n) }`, "list(l: [$a], y: $a)"},
		{"control", `query Q($p: Int, $n: Int) { pair(x: $p, y: $n) }`, "pair(x: $a, y: $a)"},
	} {
		out, mapping := verifF25Map(t, c.op)
		t.Logf("%s:\n   in:  %s\n   out: %s\n   mapping: %v", c.name, c.op, out, mapping)
		if contains(out, c.bad) {
			t.Errorf("%s: two different variables became one: %s", c.name, out)
		}
	}
}

func contains(s, sub string) bool {
	for i := 0; i+len(sub) <= len(s); i++ {
		if s[i:i+len(sub)] == sub {
			return true
		}
	}
	return false
}
