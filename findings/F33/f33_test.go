package astminify

// Demonstration for finding F33 (property C09): the minified operation (the subgraph request body when
// MinifySubgraphOperations is on) depends on Go map iteration order. copy to v2/pkg/astminify

import (
	"bytes"
	"testing"

	"github.com/wundergraph/graphql-go-tools/v2/pkg/astparser"
	"github.com/wundergraph/graphql-go-tools/v2/pkg/asttransform"
)

func TestVerifF33_MinifyIsDeterministic(t *testing.T) {
	definition, report := astparser.ParseGraphqlDocumentString(`schema { query: Query } type Query { u1: User u2: User u3: User u4: User } type User { id: ID! name: String email: String age: Int }`)
	if report.HasErrors() {
		t.Fatal(report.Error())
	}
	if err := asttransform.MergeDefinitionWithBaseSchema(&definition); err != nil {
		t.Fatal(err)
	}
	operation := []byte(`query Q { u1 { id name } u2 { id name } u3 { email age } u4 { email age } }`)
	outputs := map[string]int{}
	for i := 0; i < 400; i++ {
		var buf bytes.Buffer
		if _, err := NewMinifier().Minify(operation, &definition, MinifyOptions{SortAST: true}, &buf); err != nil {
			t.Fatal(err)
		}
		outputs[buf.String()]++
	}
	if len(outputs) != 1 {
		t.Errorf("F33: %d different outputs for one operation:", len(outputs))
		for o, n := range outputs {
			t.Errorf("  %3d x %s", n, o)
		}
	}
}
