package astnormalization

// Demonstration for finding F26 (property C03): a normalizer that is reused after a request whose variables stage was
// stopped corrupts the variables of the next, valid request. copy to v2/pkg/astnormalization

import (
	"testing"

	"github.com/wundergraph/graphql-go-tools/v2/pkg/internal/unsafeparser"
	"github.com/wundergraph/graphql-go-tools/v2/pkg/operationreport"
)

const verifF26Schema = `
type Query { f(a: [Int], o: In): String }
input In { x: Int = 5, y: [Int], n: In }
`

func verifF26Normalize(t *testing.T, n *OperationNormalizer, op, variables string) (string, bool) {
	t.Helper()
	definition := unsafeparser.ParseGraphqlDocumentStringWithBaseSchema(verifF26Schema)
	operation := unsafeparser.ParseGraphqlDocumentString(op)
	operation.Input.Variables = []byte(variables)
	report := &operationreport.Report{}
	n.NormalizeNamedOperation(&operation, &definition, operation.OperationDefinitionNameBytes(0), report)
	return string(operation.Input.Variables), !report.HasErrors()
}

func verifF26Normalizer() *OperationNormalizer {
	return NewWithOpts(WithRemoveNotMatchingOperationDefinitions(), WithExtractVariables(), WithRemoveFragmentDefinitions(), WithInlineFragmentSpreads(), WithRemoveUnusedVariables())
}

func TestVerifF26_NormalizationOfARequestDoesNotDependOnTheRequestBefore(t *testing.T) {
	const op2, vars2 = `query Q($w: [Int]) { f(a: $w) }`, `{"w":1}`

	want, ok := verifF26Normalize(t, verifF26Normalizer(), op2, vars2)
	if !ok {
		t.Fatalf("control: the second request does not normalize on a fresh normalizer")
	}

	n := verifF26Normalizer()
	// a request whose variable has the wrong kind: the variables stage stops with an error
	if _, ok := verifF26Normalize(t, n, `query Q($v: In) { f(o: $v) }`, `{"v":"abc"}`); ok {
		t.Skip("the first request did not fail in the variables stage: the history that shows the defect is not reproduced")
	}
	got, ok := verifF26Normalize(t, n, op2, vars2)
	if !ok {
		t.Fatalf("the second request fails on the reused normalizer")
	}
	if got != want {
		t.Errorf("F26: variables of the second request on a reused normalizer: %s, on a fresh normalizer: %s", got, want)
	}
}
