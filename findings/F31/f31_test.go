package resolve

// Demonstration for finding F31 (property C09): a subscription filter decides differently when the client names its
// variable differently (the value type is looked up in the raw variables by the canonical name). copy to
// v2/pkg/engine/resolve

import (
	"testing"

	"github.com/wundergraph/astjson"
)

func TestVerifF31_SubscriptionFilterDoesNotDependOnTheClientsVariableName(t *testing.T) {
	filter := &SubscriptionFilter{
		In: &SubscriptionFieldFilter{
			FieldPath: []string{"id"},
			Values: []InputTemplate{{Segments: []TemplateSegment{{
				SegmentType:        VariableSegmentType,
				VariableKind:       ContextVariableKind,
				VariableSourcePath: []string{"a"}, // canonical name
				Renderer:           NewPlainVariableRenderer(),
			}}}},
		},
	}
	event := []byte(`{"id":1}`)
	for _, c := range []struct {
		name      string
		variables string
		remap     map[string]string
	}{
		{"client calls the variable a", `{"a":1}`, map[string]string{"a": "a"}},
		{"client calls the variable id", `{"id":1}`, map[string]string{"a": "id"}},
	} {
		ctx := &Context{Variables: astjson.MustParseBytes([]byte(c.variables)), RemapVariables: c.remap}
		skip, err := filter.SkipEvent(ctx, event)
		if err != nil {
			t.Fatalf("%s: %v", c.name, err)
		}
		if skip {
			t.Errorf("F31 %s: the matching event is skipped", c.name)
		}
	}
}
