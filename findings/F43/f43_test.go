// Copy to: v2/pkg/variablesvalidation/  (package variablesvalidation)
//
//   cd v2 && GOFLAGS= go test -vet=off -count=1 -run TestHuntH1_3 ./pkg/variablesvalidation/
//
// Property C06 ("lists", "defaults for absent values"): when a variable is absent its default value
// is used, and that default is coerced like any other input - `list: 5` for a field of type
// [Int!] is the list [5] (the operation validator accepts such a default: it is a valid operation).
// In the OperationNormalizer (the path execution/engine uses) the list coercion visitor runs
// *before* the visitor which copies the default value into the variables, in the same walker pass.
// Only the outermost level of the default is wrapped (variables_default_value_extraction.go:111-118);
// everything nested - input object fields, inner lists - stays uncoerced and the variables
// validator then rejects the valid operation.
package variablesvalidation

import (
	"testing"

	"github.com/wundergraph/graphql-go-tools/v2/pkg/astnormalization"
	"github.com/wundergraph/graphql-go-tools/v2/pkg/asttransform"
	"github.com/wundergraph/graphql-go-tools/v2/pkg/astvalidation"
	"github.com/wundergraph/graphql-go-tools/v2/pkg/internal/unsafeparser"
	"github.com/wundergraph/graphql-go-tools/v2/pkg/operationreport"
)

const huntH1_3Schema = `
type Query { f(a: In, l: [Int], ll: [[Int!]], lin: [In!]): String }
input In { req: Int!, list: [Int!] }`

func huntH1_3Run(t *testing.T, operation, variables string) (validationErr error, variablesAfter string) {
	t.Helper()
	def := unsafeparser.ParseGraphqlDocumentString(huntH1_3Schema)
	op := unsafeparser.ParseGraphqlDocumentString(operation)
	op.Input.Variables = []byte(variables)
	if err := asttransform.MergeDefinitionWithBaseSchema(&def); err != nil {
		t.Fatal(err)
	}
	// the operation itself is valid GraphQL
	report := &operationreport.Report{}
	if astvalidation.DefaultOperationValidator().Validate(&op, &def, report); report.HasErrors() {
		t.Fatalf("operation %q is not valid: %s", operation, report.Error())
	}
	report = &operationreport.Report{}
	astnormalization.NewNormalizer(true, true).NormalizeOperation(&op, &def, report)
	if report.HasErrors() {
		t.Fatalf("normalization failed: %s", report.Error())
	}
	validator := NewVariablesValidator(VariablesValidatorOptions{})
	return validator.Validate(&op, &def, op.Input.Variables), string(op.Input.Variables)
}

func huntH1_3Check(t *testing.T, operation, variables, wantVariablesAfter string) {
	t.Helper()
	err, after := huntH1_3Run(t, operation, variables)
	if err != nil || after != wantVariablesAfter {
		t.Errorf("input: operation %q, variables %s\n"+
			"observed: validation error = %v, variables after normalization = %s\n"+
			"expected: accepted, variables after normalization = %s",
			operation, variables, err, after, wantVariablesAfter)
	}
}

// control: the very same values are fine when the client supplies them as variables,
// and a default is coerced at its outermost level
func TestHuntH1_3_Control(t *testing.T) {
	huntH1_3Check(t, `query($v: In){f(a:$v)}`, `{"v":{"req":1,"list":5}}`, `{"v":{"req":1,"list":[5]}}`)
	huntH1_3Check(t, `query($v: [[Int!]]){f(ll:$v)}`, `{"v":[1]}`, `{"v":[[1]]}`)
	huntH1_3Check(t, `query($v: [In!]){f(lin:$v)}`, `{"v":[{"req":1,"list":2}]}`, `{"v":[{"req":1,"list":[2]}]}`)
	huntH1_3Check(t, `query($v: [Int] = 1){f(l:$v)}`, `{}`, `{"v":[1]}`)
	huntH1_3Check(t, `query($v: In = {req: 1, list: [5]}){f(a:$v)}`, `{}`, `{"v":{"req":1,"list":[5]}}`)
}

func TestHuntH1_3_DefaultInputObjectWithListField(t *testing.T) {
	huntH1_3Check(t, `query($v: In = {req: 1, list: 5}){f(a:$v)}`, `{}`, `{"v":{"req":1,"list":[5]}}`)
}

func TestHuntH1_3_DefaultNestedList(t *testing.T) {
	huntH1_3Check(t, `query($v: [[Int!]] = [1]){f(ll:$v)}`, `{}`, `{"v":[[1]]}`)
}

func TestHuntH1_3_DefaultListOfInputObjects(t *testing.T) {
	huntH1_3Check(t, `query($v: [In!] = [{req: 1, list: 2}]){f(lin:$v)}`, `{}`, `{"v":[{"req":1,"list":[2]}]}`)
}
