package resolve

import (
	"bytes"
	"context"
	"strings"
	"testing"

	"github.com/wundergraph/go-arena"

	"github.com/wundergraph/graphql-go-tools/v2/pkg/ast"
)

// F6 (C02): walkInteger only checks the JSON kind: 1.5 is rendered for an Int field although it does
// not conform to the declared type. Known finding (not repaired: behavioural risk).
func TestVerifF6IntAcceptsFraction(t *testing.T) {
	object := &Object{Fields: []*Field{{Name: []byte("a"), Value: &Integer{Path: []string{"a"}, Nullable: true}}}}
	res := NewResolvable(arena.NewMonotonicArena(), ResolvableOptions{})
	if err := res.Init(NewContext(context.Background()), []byte(`{"a":1.5}`), ast.OperationTypeQuery); err != nil {
		t.Fatal(err)
	}
	out := &bytes.Buffer{}
	if err := res.Resolve(context.Background(), object, nil, out); err != nil {
		t.Fatal(err)
	}
	if strings.Contains(out.String(), `"a":1.5`) {
		t.Fatalf("Int field rendered a non-integral number: %s", out.String())
	}
}
