// F3 demonstration (property C04): the GraphQL specification (Single root field, 5.2.3.1) requires that the single
// root field of a subscription operation is not an introspection field. `subscription { __typename }` is accepted
// by normalize + validate with the default validator.
//
// COPY TO: v2/pkg/astvalidation/zz_f3_test.go (package astvalidation)
// RUN:     cd v2 && go test -vet=off -count=1 -run TestVerifF3 ./pkg/astvalidation/
package astvalidation

import (
	"testing"

	"github.com/wundergraph/graphql-go-tools/v2/pkg/astnormalization"
	"github.com/wundergraph/graphql-go-tools/v2/pkg/asttransform"
	"github.com/wundergraph/graphql-go-tools/v2/pkg/internal/unsafeparser"
	"github.com/wundergraph/graphql-go-tools/v2/pkg/operationreport"
)

func TestVerifF3_SubscriptionRootFieldMustNotBeAnIntrospectionField(t *testing.T) {
	definition := unsafeparser.ParseGraphqlDocumentString(`
		schema { query: Query subscription: Subscription }
		type Query { a: String }
		type Subscription { counter: Int }`)
	if err := asttransform.MergeDefinitionWithBaseSchema(&definition); err != nil {
		t.Fatal(err)
	}
	for _, tc := range []struct {
		name, op string
		valid    bool
	}{
		{"control: ordinary root field", `subscription { counter }`, true},
		{"control: two root fields", `subscription { counter other: counter }`, false},
		{"introspection root field", `subscription { __typename }`, false},
		{"aliased introspection root field", `subscription { x: __typename }`, false},
	} {
		t.Run(tc.name, func(t *testing.T) {
			operation := unsafeparser.ParseGraphqlDocumentString(tc.op)
			report := operationreport.Report{}
			astnormalization.NormalizeOperation(&operation, &definition, &report)
			if report.HasErrors() {
				t.Fatalf("normalization failed: %s", report.Error())
			}
			state := DefaultOperationValidator().Validate(&operation, &definition, &report)
			if got := state == Valid; got != tc.valid {
				t.Fatalf("%s: validator says valid=%v, the specification says valid=%v (%s)", tc.op, got, tc.valid, report.Error())
			}
		})
	}
}
