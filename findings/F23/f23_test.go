package astvalidation

// Demonstration for finding F23 (property C04): a directive used without its required argument was accepted
// copy to v2/pkg/astvalidation

import (
	"testing"

	"github.com/wundergraph/graphql-go-tools/v2/pkg/astnormalization"
	"github.com/wundergraph/graphql-go-tools/v2/pkg/astparser"
	"github.com/wundergraph/graphql-go-tools/v2/pkg/asttransform"
	"github.com/wundergraph/graphql-go-tools/v2/pkg/operationreport"
)

const verifF23Schema = `
schema { query: Query }
type Query {
  ints(list: [Int!]): Int
  name: String
  pet: Pet
}
type Pet { name: String nick: String }
`

func verifF23Admit(t *testing.T, operation string) (bool, string) {
	t.Helper()
	definition, report := astparser.ParseGraphqlDocumentString(verifF23Schema)
	if report.HasErrors() {
		t.Fatalf("schema: %s", report.Error())
	}
	if err := asttransform.MergeDefinitionWithBaseSchema(&definition); err != nil {
		t.Fatal(err)
	}
	doc, report := astparser.ParseGraphqlDocumentString(operation)
	if report.HasErrors() {
		t.Fatalf("operation does not parse: %s", report.Error())
	}
	rep := operationreport.Report{}
	normalizer := astnormalization.NewWithOpts(
		astnormalization.WithRemoveFragmentDefinitions(),
		astnormalization.WithRemoveUnusedVariables(),
		astnormalization.WithInlineFragmentSpreads(),
	)
	normalizer.NormalizeOperation(&doc, &definition, &rep)
	if rep.HasErrors() {
		return false, "normalization: " + rep.Error()
	}
	state := DefaultOperationValidator().Validate(&doc, &definition, &rep)
	return state == Valid, rep.Error()
}

func TestVerifF23_DirectiveWithoutRequiredArgumentIsRejected(t *testing.T) {
	for _, c := range []struct{ name, op string }{
		{"@include without if", `{ name @include }`},
		{"@skip without if", `{ name @skip }`},
		{"@include(if: null)", `{ name @include(if: null) }`},
	} {
		ok, why := verifF23Admit(t, c.op)
		if ok {
			t.Errorf("%s: accepted: %s", c.name, c.op)
		} else {
			t.Logf("%s: rejected (%s)", c.name, why)
		}
	}
}
