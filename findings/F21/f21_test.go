package introspection

// Demonstration for finding F21 (property C17): a Generator that is used for a second schema reports root
// operation types of the first one. copy to v2/pkg/introspection

import (
	"testing"

	"github.com/wundergraph/graphql-go-tools/v2/pkg/astparser"
	"github.com/wundergraph/graphql-go-tools/v2/pkg/asttransform"
	"github.com/wundergraph/graphql-go-tools/v2/pkg/operationreport"
)

func verifF21Generate(t *testing.T, gen *Generator, sdl string) *Data {
	t.Helper()
	doc, rep := astparser.ParseGraphqlDocumentString(sdl)
	if rep.HasErrors() {
		t.Fatalf("parse: %s", rep.Error())
	}
	if err := asttransform.MergeDefinitionWithBaseSchema(&doc); err != nil {
		t.Fatalf("merge base schema: %v", err)
	}
	var data Data
	var report operationreport.Report
	gen.Generate(&doc, &report, &data)
	if report.HasErrors() {
		t.Fatalf("generate: %s", report.Error())
	}
	return &data
}

const verifF21First = `
schema { query: Query mutation: Ops subscription: Events }
type Query { a: String }
type Ops { set(a: String): String }
type Events { changed: String }
`

// a query-only schema; Ops and Events are ordinary object types here
const verifF21Second = `
schema { query: Query }
type Query { ops: Ops events: Events }
type Ops { count: Int }
type Events { last: String }
`

func TestVerifF21_IntrospectionDataDependsOnlyOnTheSchema(t *testing.T) {
	fresh := verifF21Generate(t, NewGenerator(), verifF21Second)
	if fresh.Schema.MutationType != nil || fresh.Schema.SubscriptionType != nil {
		t.Fatalf("control: a fresh generator reports mutation/subscription types for a query-only schema")
	}

	gen := NewGenerator()
	_ = verifF21Generate(t, gen, verifF21First)
	second := verifF21Generate(t, gen, verifF21Second)
	if second.Schema.MutationType != nil {
		t.Errorf("F21: query-only schema reports mutationType %q (left over from the schema generated before)", second.Schema.MutationType.Name)
	}
	if second.Schema.SubscriptionType != nil {
		t.Errorf("F21: query-only schema reports subscriptionType %q (left over from the schema generated before)", second.Schema.SubscriptionType.Name)
	}
}
