// Copy to: v2/pkg/variablesvalidation/  (package variablesvalidation)
//
//   cd v2 && GOFLAGS= go test -vet=off -count=1 -run TestHuntH1_2 ./pkg/variablesvalidation/
//
// Property C06: list input coercion (a single value for a variable of list type is the list of
// that value) is decided by the type the *executed* operation declares for the variable.
// astnormalization/input_coercion_for_list.go looks the variable up in
// operation.OperationDefinitions[0] - its EnterOperationDefinition hook is never registered with
// the walker, so operationDefinitionRef keeps its zero value. For a document with several
// operations, executing any operation but the first one
//   - skips the coercion (a coercible value is rejected), or
//   - coerces by the type a *different* operation declares for a variable of the same name:
//     a valid value is turned into a list and rejected, or - for a custom scalar - silently
//     rewritten before it is forwarded to the subgraph.
package variablesvalidation

import (
	"testing"

	"github.com/wundergraph/graphql-go-tools/v2/pkg/astnormalization"
	"github.com/wundergraph/graphql-go-tools/v2/pkg/asttransform"
	"github.com/wundergraph/graphql-go-tools/v2/pkg/internal/unsafeparser"
	"github.com/wundergraph/graphql-go-tools/v2/pkg/operationreport"
)

const huntH1_2Schema = `
scalar JSON
type Query { f(l: [Int], i: Int, j: JSON, lj: [JSON]): String }`

// huntH1_2Run normalizes the named operation the way execution/engine does (remove the other
// operations, extract variables / coerce lists) and validates the resulting variables.
func huntH1_2Run(t *testing.T, operation, operationName, variables string) (validationErr error, variablesAfter string) {
	t.Helper()
	def := unsafeparser.ParseGraphqlDocumentString(huntH1_2Schema)
	op := unsafeparser.ParseGraphqlDocumentString(operation)
	op.Input.Variables = []byte(variables)
	if err := asttransform.MergeDefinitionWithBaseSchema(&def); err != nil {
		t.Fatal(err)
	}
	report := &operationreport.Report{}
	norm := astnormalization.NewWithOpts(
		astnormalization.WithRemoveNotMatchingOperationDefinitions(),
		astnormalization.WithRemoveFragmentDefinitions(),
		astnormalization.WithInlineFragmentSpreads(),
		astnormalization.WithExtractVariables(),
	)
	norm.NormalizeNamedOperation(&op, &def, []byte(operationName), report)
	if report.HasErrors() {
		t.Fatalf("normalization failed: %s", report.Error())
	}
	validator := NewVariablesValidator(VariablesValidatorOptions{})
	return validator.Validate(&op, &def, op.Input.Variables), string(op.Input.Variables)
}

func huntH1_2Check(t *testing.T, operation, operationName, variables, wantVariablesAfter string) {
	t.Helper()
	err, after := huntH1_2Run(t, operation, operationName, variables)
	if err != nil || after != wantVariablesAfter {
		t.Errorf("input: document %q, operationName %q, variables %s\n"+
			"observed: validation error = %v, variables after normalization = %s\n"+
			"expected: accepted, variables after normalization = %s",
			operation, operationName, variables, err, after, wantVariablesAfter)
	}
}

// control: the first operation of the document is handled correctly,
// and so is the second one when the document is reordered
func TestHuntH1_2_Control(t *testing.T) {
	huntH1_2Check(t, `query A($v: [Int]){f(l:$v)} query B($w: [Int]){f(l:$w)}`, "A", `{"v":1}`, `{"v":[1]}`)
	huntH1_2Check(t, `query B($w: [Int]){f(l:$w)} query A($v: [Int]){f(l:$v)}`, "B", `{"w":1}`, `{"w":[1]}`)
	huntH1_2Check(t, `query B($v: JSON){f(j:$v)} query A($v: [JSON]){f(lj:$v)}`, "B", `{"v":1}`, `{"v":1}`)
}

// the executed operation is the second one: its list variable is not coerced and gets rejected
func TestHuntH1_2_CoercionSkippedForSecondOperation(t *testing.T) {
	huntH1_2Check(t, `query A($v: [Int]){f(l:$v)} query B($w: [Int]){f(l:$w)}`, "B", `{"w":1}`, `{"w":[1]}`)
}

// the executed operation declares $v: Int, the first operation declares $v: [Int]:
// the valid value 1 is wrapped into [1] and then rejected
func TestHuntH1_2_CoercedByTypeOfOtherOperation(t *testing.T) {
	huntH1_2Check(t, `query A($v: [Int]){f(l:$v)} query B($v: Int){f(i:$v)}`, "B", `{"v":1}`, `{"v":1}`)
}

// same with a custom scalar: nothing rejects the rewritten value, the subgraph receives [1] instead of 1
func TestHuntH1_2_ValueSilentlyRewritten(t *testing.T) {
	huntH1_2Check(t, `query A($v: [JSON]){f(lj:$v)} query B($v: JSON){f(j:$v)}`, "B", `{"v":1}`, `{"v":1}`)
}
