package astnormalization

// Demonstration for finding F29 (property C03): @skip/@include on a variable without a provided value uses the
// default of a variable of the same name of ANOTHER operation of the document. copy to v2/pkg/astnormalization

import (
	"testing"

	"github.com/wundergraph/graphql-go-tools/v2/pkg/internal/unsafeparser"
	"github.com/wundergraph/graphql-go-tools/v2/pkg/internal/unsafeprinter"
	"github.com/wundergraph/graphql-go-tools/v2/pkg/operationreport"
)

func TestVerifF29_SkipUsesTheDefaultOfItsOwnOperation(t *testing.T) {
	definition := unsafeparser.ParseGraphqlDocumentStringWithBaseSchema(`type Query { f: String g: String }`)
	for _, c := range []struct{ name, doc, opName, want string }{
		{"the other operation comes first", `query A($s: Boolean = true) { f @skip(if: $s) g } query B($s: Boolean = false) { f @skip(if: $s) g }`, "B", `query B {f g}`},
		{"control: own operation comes first", `query B($s: Boolean = false) { f @skip(if: $s) g } query A($s: Boolean = true) { f @skip(if: $s) g }`, "B", `query B {f g}`},
		{"control: single operation", `query B($s: Boolean = true) { f @skip(if: $s) g }`, "B", `query B {g}`},
	} {
		operation := unsafeparser.ParseGraphqlDocumentString(c.doc)
		report := &operationreport.Report{}
		n := NewWithOpts(WithRemoveNotMatchingOperationDefinitions(), WithExtractVariables(), WithRemoveFragmentDefinitions(), WithInlineFragmentSpreads(), WithRemoveUnusedVariables())
		n.NormalizeNamedOperation(&operation, &definition, []byte(c.opName), report)
		if report.HasErrors() {
			t.Fatalf("%s: %s", c.name, report.Error())
		}
		if got := unsafeprinter.Print(&operation); got != c.want {
			t.Errorf("F29 %s: normalized to %q, expected %q", c.name, got, c.want)
		}
	}
}
