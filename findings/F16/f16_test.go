package resolve

import (
	"bytes"
	"context"
	"net/http"
	"sync"
	"sync/atomic"
	"testing"

	"github.com/stretchr/testify/assert"
	"github.com/stretchr/testify/require"

	"github.com/wundergraph/graphql-go-tools/v2/pkg/ast"
	"github.com/wundergraph/graphql-go-tools/v2/pkg/engine/datasource/httpclient"
)

// F16: with pre-fetch (up-front, batch) field authorization enabled, a subgraph request must not be
// sent when all of its root fields are denied. The initial loader of ResolveGraphQLDeferResponse
// honours this (it is constructed with the request's *FieldAuthorization), but every @defer group's
// loader is constructed in resolveDeferSingle with a nil authorization, and
// Loader.isFetchAuthorizedFromCache treats a nil authorization as "allowed". So the deferred fetch
// of a fully denied field still reaches the subgraph; only the rendered value is nulled afterwards.

// f16CountingDataSource is a fake subgraph that counts how often it is loaded.
type f16CountingDataSource struct {
	data  []byte
	calls atomic.Int64
}

func (d *f16CountingDataSource) Load(_ context.Context, _ http.Header, _ []byte) ([]byte, error) {
	d.calls.Add(1)
	return d.data, nil
}

func (d *f16CountingDataSource) LoadWithFiles(_ context.Context, _ http.Header, _ []byte, _ []*httpclient.FileUpload) ([]byte, error) {
	d.calls.Add(1)
	return d.data, nil
}

// f16BatchAuthorizer is a pre-fetch (batch) authorizer denying the configured coordinates.
type f16BatchAuthorizer struct {
	deny  map[GraphCoordinate]string
	calls atomic.Int64
}

func (a *f16BatchAuthorizer) AuthorizeFields(_ *Context, coordinates []GraphCoordinate) ([]AuthorizationDecision, error) {
	a.calls.Add(1)
	decisions := make([]AuthorizationDecision, len(coordinates))
	for i := range coordinates {
		reason, denied := a.deny[GraphCoordinate{TypeName: coordinates[i].TypeName, FieldName: coordinates[i].FieldName}]
		decisions[i] = AuthorizationDecision{Allowed: !denied, Reason: reason}
	}
	return decisions, nil
}

// f16DeferWriter is a minimal DeferResponseWriter recording one string per flushed frame.
type f16DeferWriter struct {
	mu       sync.Mutex
	buf      bytes.Buffer
	payloads []string
	complete bool
}

func (w *f16DeferWriter) Write(p []byte) (int, error) {
	w.mu.Lock()
	defer w.mu.Unlock()
	return w.buf.Write(p)
}

func (w *f16DeferWriter) Flush() error {
	w.mu.Lock()
	defer w.mu.Unlock()
	w.payloads = append(w.payloads, w.buf.String())
	w.buf.Reset()
	return nil
}

func (w *f16DeferWriter) Complete() {
	w.mu.Lock()
	defer w.mu.Unlock()
	w.complete = true
}

func f16Fetch(ds DataSource, dataSourceID string, rootField GraphCoordinate) *FetchTreeNode {
	return Single(&SingleFetch{
		FetchConfiguration: FetchConfiguration{
			DataSource: ds,
			PostProcessing: PostProcessingConfiguration{
				SelectResponseDataPath:   []string{"data"},
				SelectResponseErrorsPath: []string{"errors"},
			},
		},
		InputTemplate: InputTemplate{
			Segments: []TemplateSegment{
				{SegmentType: StaticSegmentType, Data: []byte(`{}`)},
			},
		},
		Info: &FetchInfo{
			DataSourceID:   dataSourceID,
			DataSourceName: dataSourceID,
			OperationType:  ast.OperationTypeQuery,
			RootFields:     []GraphCoordinate{rootField},
		},
	})
}

// f16Response builds the plan of
//
//	{ public ... @defer { secret } }
//
// where Query.public is served by subgraph "public-ds" (initial fetch, unprotected) and
// Query.secret by subgraph "secret-ds" (deferred fetch group 1, protected by an authorization rule).
func f16Response(publicDS, secretDS DataSource) *GraphQLDeferResponse {
	group := &DeferFetchGroup{
		DeferID: 1,
		Fetches: f16Fetch(secretDS, "secret-ds", GraphCoordinate{TypeName: "Query", FieldName: "secret", HasAuthorizationRule: true}),
	}
	return &GraphQLDeferResponse{
		DeferDescriptors: map[int]DeferDescriptor{
			1: {ID: 1, ParentID: 0, Path: nil},
		},
		DeferTree: DeferSingle(group),
		Response: &GraphQLResponse{
			Info: &GraphQLResponseInfo{
				OperationType: ast.OperationTypeQuery,
				// as collected by the postprocess package: every protected coordinate of the
				// operation, including those inside @defer fragments
				AuthorizationCoordinates: []AuthorizationCoordinate{
					{DataSourceID: "secret-ds", Coordinate: GraphCoordinate{TypeName: "Query", FieldName: "secret"}},
				},
			},
			Fetches: f16Fetch(publicDS, "public-ds", GraphCoordinate{TypeName: "Query", FieldName: "public"}),
			Data: &Object{
				Nullable: true,
				Fields: []*Field{
					{
						Name: []byte("public"),
						Info: &FieldInfo{
							Name:                "public",
							ExactParentTypeName: "Query",
							Source:              TypeFieldSource{IDs: []string{"public-ds"}, Names: []string{"public-ds"}},
						},
						Value: &String{Path: []string{"public"}, Nullable: true},
					},
					{
						Name:  []byte("secret"),
						Defer: &DeferField{DeferID: 1},
						Info: &FieldInfo{
							Name:                 "secret",
							ExactParentTypeName:  "Query",
							Source:               TypeFieldSource{IDs: []string{"secret-ds"}, Names: []string{"secret-ds"}},
							HasAuthorizationRule: true,
						},
						Value: &String{Path: []string{"secret"}, Nullable: true},
					},
				},
			},
		},
	}
}

// TestVerifF16_DeniedDeferredFetchIsNotSent: the deferred fetch's only root field is denied up
// front, so the request must not reach the "secret-ds" subgraph.
func TestVerifF16_DeniedDeferredFetchIsNotSent(t *testing.T) {
	publicDS := &f16CountingDataSource{data: []byte(`{"data":{"public":"visible"}}`)}
	secretDS := &f16CountingDataSource{data: []byte(`{"data":{"secret":"hidden"}}`)}
	response := f16Response(publicDS, secretDS)

	authorizer := &f16BatchAuthorizer{deny: map[GraphCoordinate]string{
		{TypeName: "Query", FieldName: "secret"}: "missing scope 'secret:read'",
	}}
	ctx := NewContext(context.Background())
	ctx.SetPreFetchFieldAuthorizer(authorizer)

	resolver := newResolver(t.Context())
	writer := &f16DeferWriter{}
	_, err := resolver.ResolveGraphQLDeferResponse(ctx, response, writer)
	require.NoError(t, err)
	require.True(t, writer.complete)
	t.Logf("payloads: %q", writer.payloads)

	// sanity: the scenario ran as intended
	assert.Equal(t, int64(1), authorizer.calls.Load(), "batch authorizer is consulted exactly once, up front")
	assert.Equal(t, int64(1), publicDS.calls.Load(), "the allowed initial fetch is sent")
	require.Len(t, writer.payloads, 2)
	assert.Equal(t, `{"data":{"public":"visible"},"pending":[{"id":"1","path":[]}],"hasNext":true}`, writer.payloads[0])
	// the denied field is nulled in the deferred frame and never leaks the subgraph value
	assert.Contains(t, writer.payloads[1], `"secret":null`)
	assert.Contains(t, writer.payloads[1], `Unauthorized to load field 'Query.secret', Reason: missing scope 'secret:read'.`)
	assert.NotContains(t, writer.payloads[1], `hidden`)

	// THE PROPERTY: all root fields of the deferred fetch are denied -> no subgraph request.
	assert.Equal(t, int64(0), secretDS.calls.Load(),
		"deferred fetch whose only root field (Query.secret) was denied by pre-fetch authorization must not be sent to the subgraph")
}

// TestVerifF16_Control_DeniedInitialFetchIsNotSent: the very same protected fetch, planned as the
// INITIAL fetch of the deferred response, is pruned correctly. This pins the asymmetry on the
// defer group loaders (and passes both before and after the fix).
func TestVerifF16_Control_DeniedInitialFetchIsNotSent(t *testing.T) {
	secretDS := &f16CountingDataSource{data: []byte(`{"data":{"secret":"hidden"}}`)}
	deferredDS := &f16CountingDataSource{data: []byte(`{"data":{"public":"visible"}}`)}

	group := &DeferFetchGroup{
		DeferID: 1,
		Fetches: f16Fetch(deferredDS, "public-ds", GraphCoordinate{TypeName: "Query", FieldName: "public"}),
	}
	response := f16Response(nil, nil)
	response.DeferTree = DeferSingle(group)
	response.Response.Fetches = f16Fetch(secretDS, "secret-ds", GraphCoordinate{TypeName: "Query", FieldName: "secret", HasAuthorizationRule: true})
	// swap which field is deferred: { secret ... @defer { public } }
	response.Response.Data.Fields[0].Defer = &DeferField{DeferID: 1}
	response.Response.Data.Fields[1].Defer = nil

	authorizer := &f16BatchAuthorizer{deny: map[GraphCoordinate]string{
		{TypeName: "Query", FieldName: "secret"}: "missing scope 'secret:read'",
	}}
	ctx := NewContext(context.Background())
	ctx.SetPreFetchFieldAuthorizer(authorizer)

	resolver := newResolver(t.Context())
	writer := &f16DeferWriter{}
	_, err := resolver.ResolveGraphQLDeferResponse(ctx, response, writer)
	require.NoError(t, err)
	t.Logf("payloads: %q", writer.payloads)

	assert.Equal(t, int64(0), secretDS.calls.Load(), "denied initial fetch is not sent")
	assert.Equal(t, int64(1), deferredDS.calls.Load(), "allowed deferred fetch is sent")
}

// TestVerifF16_Control_AllowedDeferredFetchIsSent: when the coordinate is allowed the deferred
// fetch is sent exactly once, so the 0-calls assertion above is not vacuous (passes before and
// after the fix).
func TestVerifF16_Control_AllowedDeferredFetchIsSent(t *testing.T) {
	publicDS := &f16CountingDataSource{data: []byte(`{"data":{"public":"visible"}}`)}
	secretDS := &f16CountingDataSource{data: []byte(`{"data":{"secret":"hidden"}}`)}
	response := f16Response(publicDS, secretDS)

	authorizer := &f16BatchAuthorizer{}
	ctx := NewContext(context.Background())
	ctx.SetPreFetchFieldAuthorizer(authorizer)

	resolver := newResolver(t.Context())
	writer := &f16DeferWriter{}
	_, err := resolver.ResolveGraphQLDeferResponse(ctx, response, writer)
	require.NoError(t, err)
	t.Logf("payloads: %q", writer.payloads)

	assert.Equal(t, int64(1), publicDS.calls.Load())
	assert.Equal(t, int64(1), secretDS.calls.Load())
	require.Len(t, writer.payloads, 2)
	assert.Contains(t, writer.payloads[1], `"secret":"hidden"`)
}
