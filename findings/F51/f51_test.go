// Copy to: execution/engine/  (package engine; uses the test helpers of that package)
//
//   cd execution && GOFLAGS= go test -vet=off -count=1 -run TestHuntH1_5 ./engine/
//
// Property C02: "every such replacement is reported by an error whose path is the response path of
// the offending position". When members of an abstract type declare the same field with different
// nullability (User.email: String!, Organization.email: String) the planner aliases the upstream
// selections (`__internal_merge_User_email: email`, abstract_selection_field_alias.go) and restores
// the client's response name only in Field.Name (plan/visitor.go:334-340); the value node keeps the
// alias as its Path. Resolvable builds error paths and messages from the node Path, so the
// planner-internal alias shows up in `errors[].path` / `errors[].message` instead of the response key.
package engine

import (
	"bytes"
	"context"
	"io"
	"net/http"
	"testing"

	"github.com/jensneuse/abstractlogger"
	"github.com/stretchr/testify/require"

	"github.com/wundergraph/graphql-go-tools/execution/graphql"
	"github.com/wundergraph/graphql-go-tools/v2/pkg/engine/datasource/graphql_datasource"
	"github.com/wundergraph/graphql-go-tools/v2/pkg/engine/plan"
	"github.com/wundergraph/graphql-go-tools/v2/pkg/engine/resolve"
)

func huntH1_5Exec(t *testing.T, query, subgraphResponse string) (response string, upstreamQuery string) {
	t.Helper()
	const sdl = `
		union Entity = User | Organization
		type Query { entity: Entity, entities: [Entity] }
		type User { id: ID!, email: String! }
		type Organization { id: ID!, email: String }`
	schema, err := graphql.NewSchemaFromString(sdl)
	require.NoError(t, err)

	rt := testRoundTripper(func(r *http.Request) *http.Response {
		b, _ := io.ReadAll(r.Body)
		upstreamQuery = string(b)
		return &http.Response{StatusCode: 200, Body: io.NopCloser(bytes.NewBufferString(subgraphResponse))}
	})
	ds := mustGraphqlDataSourceConfiguration(t, "ds-id",
		mustFactory(t, &http.Client{Transport: rt}),
		&plan.DataSourceMetadata{RootNodes: []plan.TypeField{
			{TypeName: "Query", FieldNames: []string{"entity", "entities"}},
			{TypeName: "User", FieldNames: []string{"id", "email"}},
			{TypeName: "Organization", FieldNames: []string{"id", "email"}},
		}},
		mustConfiguration(t, graphql_datasource.ConfigurationInput{
			Fetch:               &graphql_datasource.FetchConfiguration{URL: "https://example.com/", Method: "POST"},
			SchemaConfiguration: mustSchemaConfig(t, nil, sdl),
		}),
	)
	conf := NewConfiguration(schema)
	conf.SetDataSources([]plan.DataSource{ds})
	conf.SetFieldConfigurations([]plan.FieldConfiguration{
		{TypeName: "Query", FieldName: "entity", Path: []string{"entity"}},
		{TypeName: "Query", FieldName: "entities", Path: []string{"entities"}},
	})
	conf.plannerConfig.RelaxSubgraphOperationFieldSelectionMergingNullability = true
	ctx, cancel := context.WithCancel(context.Background())
	defer cancel()
	engine, err := NewExecutionEngine(ctx, abstractlogger.Noop{}, conf, resolve.ResolverOptions{MaxConcurrency: 8})
	require.NoError(t, err)

	req := graphql.Request{Query: query}
	w := graphql.NewEngineResultWriter()
	require.NoError(t, engine.Execute(context.Background(), &req, &w))
	return w.String(), upstreamQuery
}

func huntH1_5Check(t *testing.T, query, subgraphResponse, want string) {
	t.Helper()
	got, upstream := huntH1_5Exec(t, query, subgraphResponse)
	if got != want {
		t.Errorf("input: query %s\n       upstream request %s\n       subgraph response %s\nobserved: %s\nexpected: %s",
			query, upstream, subgraphResponse, got, want)
	}
}

// control: without an error the client sees its own response key; the nullable member may be null
func TestHuntH1_5_Control(t *testing.T) {
	huntH1_5Check(t, `{ entity { ... on User { email } ... on Organization { email } } }`,
		`{"data":{"entity":{"__typename":"User","__internal_merge_User_email":"user@test.com"}}}`,
		`{"data":{"entity":{"email":"user@test.com"}}}`)
	huntH1_5Check(t, `{ entity { ... on User { email } ... on Organization { email } } }`,
		`{"data":{"entity":{"__typename":"Organization","__internal_merge_Organization_email":null}}}`,
		`{"data":{"entity":{"email":null}}}`)
	// control for the error path itself: a non-aliased selection reports the response key
	huntH1_5Check(t, `{ entity { ... on User { email } } }`,
		`{"data":{"entity":{"__typename":"User","email":null}}}`,
		`{"errors":[{"message":"Cannot return null for non-nullable field 'Query.entity.email'.","path":["entity","email"]}],"data":{"entity":null}}`)
}

func TestHuntH1_5_NullInNonNullMember(t *testing.T) {
	huntH1_5Check(t, `{ entity { ... on User { email } ... on Organization { email } } }`,
		`{"data":{"entity":{"__typename":"User","__internal_merge_User_email":null}}}`,
		`{"errors":[{"message":"Cannot return null for non-nullable field 'Query.entity.email'.","path":["entity","email"]}],"data":{"entity":null}}`)
}

func TestHuntH1_5_WrongKindWithClientAliasInList(t *testing.T) {
	huntH1_5Check(t, `{ entities { ... on User { mail: email } ... on Organization { mail: email } } }`,
		`{"data":{"entities":[{"__typename":"Organization","__internal_merge_Organization_mail":"o@test.com"},{"__typename":"User","__internal_merge_User_mail":7}]}}`,
		`{"errors":[{"message":"String cannot represent non-string value: \"7\"","path":["entities",1,"mail"]}],"data":{"entities":[{"mail":"o@test.com"},null]}}`)
}
