// F12 demonstration (property C17): converting an introspection result back into a schema document must yield a
// schema equivalent to the original. JsonConverter dropped (a) the interfaces an interface implements
// (`interface A implements B` came back as `interface A`) and (b) the `repeatable` flag of directive definitions.
//
// COPY TO: v2/pkg/introspection/zz_f12_test.go (package introspection)
// RUN:     cd v2 && go test -vet=off -count=1 -run TestVerifF12 ./pkg/introspection/
package introspection

import (
	"bytes"
	"encoding/json"
	"strings"
	"testing"

	"github.com/wundergraph/graphql-go-tools/v2/pkg/astparser"
	"github.com/wundergraph/graphql-go-tools/v2/pkg/astprinter"
	"github.com/wundergraph/graphql-go-tools/v2/pkg/asttransform"
	"github.com/wundergraph/graphql-go-tools/v2/pkg/operationreport"
)

func f12RoundTrip(t *testing.T, sdl string) string {
	def, rep := astparser.ParseGraphqlDocumentString(sdl)
	if rep.HasErrors() {
		t.Fatal(rep.Error())
	}
	if err := asttransform.MergeDefinitionWithBaseSchema(&def); err != nil {
		t.Fatal(err)
	}
	var data Data
	report := operationreport.Report{}
	NewGenerator().Generate(&def, &report, &data)
	if report.HasErrors() {
		t.Fatal(report.Error())
	}
	js, err := json.Marshal(data)
	if err != nil {
		t.Fatal(err)
	}
	conv := JsonConverter{}
	doc, err := conv.GraphQLDocument(bytes.NewReader(js))
	if err != nil {
		t.Fatal(err)
	}
	out, err := astprinter.PrintString(doc)
	if err != nil {
		t.Fatal(err)
	}
	return out
}

func TestVerifF12_InterfaceImplementingInterfaceSurvivesTheRoundTrip(t *testing.T) {
	out := f12RoundTrip(t, `schema { query: Query } type Query { a: A }
		interface B { id: ID } interface A implements B { id: ID } type T implements A & B { id: ID }`)
	if !strings.Contains(out, "interface A implements B") {
		t.Fatalf("`interface A implements B` was not preserved; interface A came back as: %q", out[strings.Index(out, "interface A"):][:40])
	}
}

func TestVerifF12_RepeatableDirectiveSurvivesTheRoundTrip(t *testing.T) {
	out := f12RoundTrip(t, `schema { query: Query } type Query { a: Int } directive @r(x: Int) repeatable on FIELD directive @s on FIELD`)
	if !strings.Contains(out, "directive @r(x: Int) repeatable on FIELD") {
		t.Fatalf("`repeatable` was not preserved: %q", out[strings.Index(out, "directive @r"):][:60])
	}
	if strings.Contains(out, "directive @s repeatable") {
		t.Fatalf("`repeatable` was invented for @s")
	}
}

func TestVerifF12_InputValueDeprecationSurvivesTheRoundTrip(t *testing.T) {
	out := f12RoundTrip(t, `schema { query: Query } type Query { a(x: Int @deprecated(reason: "use y") y: Int): Int } input I { a: Int b: Int @deprecated(reason: "gone") }`)
	if !strings.Contains(out, `x: Int @deprecated(reason: "use y")`) {
		t.Fatalf("deprecation of argument x was not preserved: %q", out[strings.Index(out, "type Query"):][:80])
	}
	if !strings.Contains(out, `b: Int @deprecated(reason: "gone")`) {
		t.Fatalf("deprecation of input field b was not preserved: %q", out[strings.Index(out, "input I"):][:60])
	}
}

func TestVerifF12_SpecifiedByURLSurvivesTheRoundTrip(t *testing.T) {
	out := f12RoundTrip(t, `schema { query: Query } type Query { a: S } scalar S @specifiedBy(url: "https://example.com/s") scalar P`)
	if !strings.Contains(out, `scalar S @specifiedBy(url: "https://example.com/s")`) {
		t.Fatalf("@specifiedBy was not preserved: %q", out[strings.Index(out, "scalar S"):][:60])
	}
	if strings.Contains(out, "scalar P @specifiedBy") {
		t.Fatalf("@specifiedBy was invented for P")
	}
}
