package resolve

// Finding F53 (property C07): a single entity fetch that answers {"data":{"_entities":[null]},"errors":[...]} was
// treated as "a successful entity fetch where no entity has been returned" and not recorded as errored: the request
// that @requires its field was sent with title:null and its answer returned as data.
// Copy to v2/pkg/engine/resolve/ and run: cd v2 && go test -vet=off -count=1 -run TestF53 ./pkg/engine/resolve/

import (
	"bytes"
	"context"
	"net/http"
	"sync"
	"testing"

	"github.com/wundergraph/graphql-go-tools/v2/pkg/ast"
	"github.com/wundergraph/graphql-go-tools/v2/pkg/engine/datasource/httpclient"
)

type f53DS struct {
	mu      sync.Mutex
	respond func(input string) (string, int, error)
	inputs  []string
}

func (d *f53DS) Load(ctx context.Context, _ http.Header, input []byte) ([]byte, error) {
	d.mu.Lock()
	d.inputs = append(d.inputs, string(input))
	d.mu.Unlock()
	body, status, err := d.respond(string(input))
	if rc := httpclient.GetResponseContext(ctx); rc != nil {
		rc.StatusCode = status
	}
	if err != nil {
		return nil, err
	}
	return []byte(body), nil
}

func (d *f53DS) LoadWithFiles(ctx context.Context, h http.Header, input []byte, _ []*httpclient.FileUpload) ([]byte, error) {
	return d.Load(ctx, h, input)
}

func f53Static(s string) InputTemplate {
	return InputTemplate{Segments: []TemplateSegment{{Data: []byte(s), SegmentType: StaticSegmentType}}}
}

func f53Repr(fields ...*Field) InputTemplate {
	return InputTemplate{Segments: []TemplateSegment{{
		SegmentType:  VariableSegmentType,
		VariableKind: ResolvableObjectVariableKind,
		Renderer:     NewGraphQLVariableResolveRenderer(&Object{Fields: fields}),
	}}}
}

func TestF53_SingleEntityFetchWithErrorsAndNoEntity(t *testing.T) {
	for name, tc := range map[string]struct {
		titleAnswer string
		wantSent    bool
	}{
		// the provider of the @requires field answers with no entity AND errors: it failed
		"entities [null] + errors": {`{"data":{"_entities":[null]},"errors":[{"message":"down"}]}`, false},
		// control: no entity and no errors is an empty result, the dependent request is still made
		"entities [null], no errors (control)": {`{"data":{"_entities":[null]}}`, true},
	} {
		titleAnswer := tc.titleAnswer
		root := &f53DS{respond: func(string) (string, int, error) {
			return `{"data":{"me":{"__typename":"User","id":"1"}}}`, 200, nil
		}}
		title := &f53DS{respond: func(string) (string, int, error) { return titleAnswer, 200, nil }}
		full := &f53DS{respond: func(string) (string, int, error) {
			return `{"data":{"_entities":[{"__typename":"User","full":"full of 1"}]}}`, 200, nil
		}}
		user := [][]byte{[]byte("User")}
		key := []*Field{
			{Name: []byte("__typename"), Value: &String{Path: []string{"__typename"}}, OnTypeNames: user},
			{Name: []byte("id"), Value: &String{Path: []string{"id"}}, OnTypeNames: user},
		}
		withTitle := []*Field{
			{Name: []byte("__typename"), Value: &String{Path: []string{"__typename"}}, OnTypeNames: user},
			{Name: []byte("title"), Value: &String{Path: []string{"title"}, Nullable: true}, OnTypeNames: user},
			{Name: []byte("id"), Value: &String{Path: []string{"id"}}, OnTypeNames: user},
		}
		entity := func(id int, deps []int, name, query string, ds DataSource, repr InputTemplate, info *FetchInfo) *EntityFetch {
			if info == nil {
				info = &FetchInfo{}
			}
			info.DataSourceID, info.DataSourceName, info.OperationType = name, name, ast.OperationTypeQuery
			return &EntityFetch{
				FetchDependencies: FetchDependencies{FetchID: id, DependsOnFetchIDs: deps},
				Input: EntityInput{
					Header:      f53Static(`{"method":"POST","url":"http://` + name + `","body":{"query":"` + query + `","variables":{"representations":[`),
					Item:        repr,
					Footer:      f53Static(`]}}}`),
					SkipErrItem: true,
				},
				DataSource:     ds,
				PostProcessing: PostProcessingConfiguration{SelectResponseDataPath: []string{"data", "_entities", "0"}, SelectResponseErrorsPath: []string{"errors"}},
				Info:           info,
			}
		}
		response := &GraphQLResponse{
			Info: &GraphQLResponseInfo{OperationType: ast.OperationTypeQuery},
			Fetches: Sequence(
				SingleWithPath(&SingleFetch{
					FetchDependencies:  FetchDependencies{FetchID: 0},
					InputTemplate:      f53Static(`{"method":"POST","url":"http://first","body":{"query":"{me {id __typename}}"}}`),
					FetchConfiguration: FetchConfiguration{DataSource: root, PostProcessing: PostProcessingConfiguration{SelectResponseDataPath: []string{"data"}, SelectResponseErrorsPath: []string{"errors"}}},
					Info:               &FetchInfo{DataSourceID: "first", DataSourceName: "first", OperationType: ast.OperationTypeQuery},
				}, "query"),
				SingleWithPath(entity(1, []int{0}, "second", "title", title, f53Repr(key...), &FetchInfo{FetchReasons: []FetchReason{{TypeName: "User", FieldName: "title", IsRequires: true, Nullable: true}}}), "me", ObjectPath("me")),
				SingleWithPath(entity(2, []int{0, 1}, "first", "full", full, f53Repr(withTitle...), nil), "me", ObjectPath("me")),
			),
			Data: &Object{Fields: []*Field{{
				Name: []byte("me"),
				Value: &Object{Path: []string{"me"}, Nullable: true, Fields: []*Field{
					{Name: []byte("id"), Value: &String{Path: []string{"id"}}},
					{Name: []byte("full"), Value: &String{Path: []string{"full"}, Nullable: true}},
				}},
			}}},
		}
		r := New(t.Context(), ResolverOptions{MaxConcurrency: 16, PropagateSubgraphErrors: true, PropagateSubgraphStatusCodes: true, ValidateRequiredExternalFields: true})
		ctx := NewContext(context.Background())
		ctx.ExecutionOptions.DisableSubgraphRequestDeduplication = true
		buf := &bytes.Buffer{}
		_, err := r.ResolveGraphQLResponse(ctx, response, nil, buf)
		if err != nil {
			t.Fatalf("%s: %v", name, err)
		}
		if sent := len(full.inputs) > 0; sent != tc.wantSent {
			t.Errorf("%s:\n provider answered: %s\n observed: dependent request sent = %v %v\n response: %s\n expected: dependent request sent = %v (a representation built from a failed fetch is never sent)",
				name, titleAnswer, sent, full.inputs, buf.String(), tc.wantSent)
		}
	}
}

