// F15 demonstration (property C15): Source.compactAndUnNullVariables must return a request input. On a
// json.Compact error it returned the *variables object* in place of the whole input (method, url, body...), so the
// request sent to the subgraph was no request at all.
//
// COPY TO: v2/pkg/engine/datasource/graphql_datasource/zz_f15_test.go (package graphql_datasource)
// RUN:     cd v2 && go test -vet=off -count=1 -run TestVerifF15 ./pkg/engine/datasource/graphql_datasource/
package graphql_datasource

import (
	"bytes"
	"testing"
)

func TestVerifF15_CompactErrorKeepsTheRequestInput(t *testing.T) {
	s := &Source{}
	// variables that are not valid JSON (and contain no whitespace): json.Compact fails
	input := []byte(`{"method":"POST","url":"http://subgraph","body":{"query":"query($a:Int){f(i:$a)}","variables":{"a":007}}}`)
	out := s.compactAndUnNullVariables(append([]byte(nil), input...))
	if !bytes.Contains(out, []byte(`"url":"http://subgraph"`)) || !bytes.Contains(out, []byte(`"query"`)) {
		t.Fatalf("the request input was replaced by %q", out)
	}
}
