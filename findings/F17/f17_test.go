package resolve

import (
	"bytes"
	"context"
	"testing"

	"github.com/wundergraph/go-arena"

	"github.com/wundergraph/graphql-go-tools/v2/pkg/ast"
)

// F17 (C02): walkObject/walkArray push their own path and then call addError(msg, samePath), which pushes
// it again: the error for an array where an object is expected (and vice versa) carried the doubled path
// ["a","a"] instead of the response path ["a"] of the offending position.
func TestVerifF17ErrorPathOfKindMismatch(t *testing.T) {
	cases := []struct {
		name string
		plan *Object
		data string
	}{
		{"array for object", &Object{Fields: []*Field{{Name: []byte("a"), Value: &Object{Path: []string{"a"}, Nullable: true,
			Fields: []*Field{{Name: []byte("x"), Value: &Integer{Path: []string{"x"}, Nullable: true}}}}}}}, `{"a":[1]}`},
		{"object for array", &Object{Fields: []*Field{{Name: []byte("a"), Value: &Array{Path: []string{"a"}, Nullable: true,
			Item: &Integer{Nullable: true}}}}}, `{"a":{"x":1}}`},
	}
	for _, c := range cases {
		res := NewResolvable(arena.NewMonotonicArena(), ResolvableOptions{})
		if err := res.Init(NewContext(context.Background()), []byte(c.data), ast.OperationTypeQuery); err != nil {
			t.Fatal(err)
		}
		out := &bytes.Buffer{}
		if err := res.Resolve(context.Background(), c.plan, nil, out); err != nil {
			t.Fatal(err)
		}
		if !bytes.Contains(out.Bytes(), []byte(`"path":["a"]`)) {
			t.Errorf("%s: error path is not the response path [\"a\"]: %s", c.name, out.String())
		}
	}
}
