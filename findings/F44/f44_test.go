// Copy to: v2/pkg/engine/resolve/  (package resolve)
//
//   cd v2 && GOFLAGS= go test -vet=off -count=1 -run TestHuntH1_4 ./pkg/engine/resolve/
//
// Property C02: "whatever JSON the subgraphs deliver ... the client always receives one
// syntactically valid GraphQL response". When subgraph response extensions are forwarded
// (Loader.allowCustomExtensionProperties / ResolverOptions.AllowCustomExtensionProperties),
// Resolvable.printExtensions writes the (already unescaped) member names between two quote
// bytes without escaping them. A member name with a quote, a backslash or a control character -
// all legal in the subgraph's JSON - yields a response that is not JSON, or a different name.
package resolve

import (
	"bytes"
	"context"
	"encoding/json"
	"testing"

	"github.com/golang/mock/gomock"

	"github.com/wundergraph/graphql-go-tools/v2/pkg/ast"
)

// huntH1_4Resolve drives loader -> resolvable with one subgraph whose response is given
func huntH1_4Resolve(t *testing.T, subgraphResponse string) string {
	t.Helper()
	ctrl := gomock.NewController(t)
	defer ctrl.Finish()

	helloObject := &Object{Fields: []*Field{{Name: []byte("hello"), Value: &String{Path: []string{"hello"}}}}}
	ds := mockedDS(t, ctrl, "{}", subgraphResponse)
	fetchTree := Single(&SingleFetch{
		InputTemplate: InputTemplate{Segments: []TemplateSegment{{Data: []byte(`{}`), SegmentType: StaticSegmentType}}},
		FetchConfiguration: FetchConfiguration{
			DataSource: ds,
			PostProcessing: PostProcessingConfiguration{
				SelectResponseDataPath:   []string{"data"},
				SelectResponseErrorsPath: []string{"errors"},
			},
		},
	})

	ctx := NewContext(context.Background())
	resolvable := NewResolvable(nil, ResolvableOptions{})
	if err := resolvable.Init(ctx, nil, ast.OperationTypeQuery); err != nil {
		t.Fatal(err)
	}
	loader := &Loader{
		dataBuffer:                     &DataBuffer{data: resolvable.data},
		allowCustomExtensionProperties: true,
	}
	if err := loader.LoadGraphQLResponseData(ctx, &GraphQLResponse{Fetches: fetchTree, Data: helloObject}); err != nil {
		t.Fatal(err)
	}
	resolvable.subgraphExtensions = loader.subgraphExtensions
	resolvable.errors = loader.errors

	out := &bytes.Buffer{}
	if err := resolvable.Resolve(ctx.ctx, helloObject, fetchTree, out); err != nil {
		t.Fatal(err)
	}
	return out.String()
}

func huntH1_4Check(t *testing.T, subgraphResponse, wantKey string) {
	t.Helper()
	if !json.Valid([]byte(subgraphResponse)) {
		t.Fatalf("test bug: the subgraph response must be valid JSON: %s", subgraphResponse)
	}
	out := huntH1_4Resolve(t, subgraphResponse)
	var parsed struct {
		Data       map[string]any `json:"data"`
		Extensions map[string]any `json:"extensions"`
	}
	if err := json.Unmarshal([]byte(out), &parsed); err != nil {
		t.Errorf("input: subgraph response %s\nobserved: client response is not valid JSON (%v): %s\nexpected: valid JSON with extensions member %q",
			subgraphResponse, err, out, wantKey)
		return
	}
	if _, ok := parsed.Extensions[wantKey]; !ok {
		t.Errorf("input: subgraph response %s\nobserved: client response %s - extensions has no member %q\nexpected: the member name is forwarded unchanged",
			subgraphResponse, out, wantKey)
	}
}

// control
func TestHuntH1_4_Control(t *testing.T) {
	huntH1_4Check(t, `{"data":{"hello":"world"},"extensions":{"traceId":"abc"}}`, "traceId")
	huntH1_4Check(t, `{"data":{"hello":"world"},"extensions":{"dür":"abc"}}`, "dür")
}

func TestHuntH1_4_QuoteInExtensionName(t *testing.T) {
	huntH1_4Check(t, `{"data":{"hello":"world"},"extensions":{"a\"b":1}}`, `a"b`)
}

func TestHuntH1_4_NewlineInExtensionName(t *testing.T) {
	huntH1_4Check(t, `{"data":{"hello":"world"},"extensions":{"a\nb":1}}`, "a\nb")
}

// `a\b` (backslash) comes out as the escape sequence \b: valid JSON, but another name (a<backspace>)
func TestHuntH1_4_BackslashInExtensionName(t *testing.T) {
	huntH1_4Check(t, `{"data":{"hello":"world"},"extensions":{"a\\b":1}}`, `a\b`)
}

// a name can smuggle whole members into the response envelope
func TestHuntH1_4_InjectedMembers(t *testing.T) {
	huntH1_4Check(t, `{"data":{"hello":"world"},"extensions":{"x\":1},\"data\":{\"hello\":\"forged\"},\"y\":{\"z":1}}`, `x":1},"data":{"hello":"forged"},"y":{"z`)
}
