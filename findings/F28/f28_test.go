package astnormalization

// Demonstration for finding F28 (property C03): the null default of a list variable is wrapped into a list.
// copy to v2/pkg/astnormalization

import (
	"testing"

	"github.com/wundergraph/graphql-go-tools/v2/pkg/internal/unsafeparser"
	"github.com/wundergraph/graphql-go-tools/v2/pkg/operationreport"
)

func TestVerifF28_NullDefaultOfAListVariableStaysNull(t *testing.T) {
	definition := unsafeparser.ParseGraphqlDocumentStringWithBaseSchema(`type Query { f(a: [Int], m: [[Int]]): String }`)
	for _, c := range []struct{ name, op, want string }{
		{"null default of a list variable", `query Q($a: [Int] = null) { f(a: $a) }`, `{"a":null}`},
		{"null default of a list of lists", `query Q($m: [[Int]] = null) { f(m: $m) }`, `{"m":null}`},
		{"control: scalar default of a list variable is coerced", `query Q($a: [Int] = 1) { f(a: $a) }`, `{"a":[1]}`},
	} {
		operation := unsafeparser.ParseGraphqlDocumentString(c.op)
		report := &operationreport.Report{}
		n := NewWithOpts(WithRemoveNotMatchingOperationDefinitions(), WithExtractVariables(), WithRemoveFragmentDefinitions(), WithInlineFragmentSpreads(), WithRemoveUnusedVariables())
		n.NormalizeNamedOperation(&operation, &definition, operation.OperationDefinitionNameBytes(0), report)
		if report.HasErrors() {
			t.Fatalf("%s: %s", c.name, report.Error())
		}
		if got := string(operation.Input.Variables); got != c.want {
			t.Errorf("F28 %s: variables %s, expected %s", c.name, got, c.want)
		}
	}
}
