package variablesvalidation

import (
	"testing"

	"github.com/wundergraph/graphql-go-tools/v2/pkg/astparser"
	"github.com/wundergraph/graphql-go-tools/v2/pkg/asttransform"
)

// F6 (C06): {"x":1.5} is accepted for $x: Int (only the JSON kind "number" is checked).
func TestVerifF6VariableIntAcceptsFraction(t *testing.T) {
	definition, rep := astparser.ParseGraphqlDocumentString(`type Query { f(x: Int): String }`)
	if rep.HasErrors() {
		t.Fatal(rep.Error())
	}
	if err := asttransform.MergeDefinitionWithBaseSchema(&definition); err != nil {
		t.Fatal(err)
	}
	op, rep := astparser.ParseGraphqlDocumentString(`query Q($x: Int) { f(x: $x) }`)
	if rep.HasErrors() {
		t.Fatal(rep.Error())
	}
	v := NewVariablesValidator(VariablesValidatorOptions{})
	if err := v.Validate(&op, &definition, []byte(`{"x":1.5}`)); err == nil {
		t.Fatalf("1.5 accepted for Int")
	}
}
