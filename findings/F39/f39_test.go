// Copy to: execution/engine/  (package engine, internal test; uses the test helpers of that package:
//          mustGraphqlDataSourceConfiguration, mustFactory, mustConfiguration, mustSchemaConfig, mapCache)
// Run:     cd execution && GOFLAGS= go test -vet=off -count=1 -run TestHuntH2_2 ./engine/
//
// Property C16 (transparency): with an entity cache attached, every response in any sequence of requests equals
// the response the same request gets with no cache, as long as subgraph data does not change.
//
// Defect: the cache key of an entity fetch is built from the rendered header|footer of the fetch input
// (loader.go prepareEntityFetch / prepareBatchEntityFetch). A variable the client OMITTED is rendered as `null`
// there, exactly like a variable the client set to null; that it was omitted is only recorded afterwards
// (SetInputUndefinedVariables -> "undefined":[...]) and the graphql data source then removes it from the
// request. So the two requests `variables: {}` and `variables: {"c": null}` are different subgraph requests
// (argument absent -> the subgraph applies the argument default; explicit null -> null) but share one cache key.
package engine

import (
	"bytes"
	"context"
	"encoding/json"
	"io"
	"net/http"
	"sync"
	"testing"
	"time"

	"github.com/jensneuse/abstractlogger"
	"github.com/stretchr/testify/require"

	"github.com/wundergraph/graphql-go-tools/execution/graphql"
	"github.com/wundergraph/graphql-go-tools/v2/pkg/engine/datasource/graphql_datasource"
	"github.com/wundergraph/graphql-go-tools/v2/pkg/engine/plan"
	"github.com/wundergraph/graphql-go-tools/v2/pkg/engine/resolve"
)

// huntH2_2Subgraph is a subgraph behind an http.RoundTripper.
type huntH2_2Subgraph struct {
	mu     sync.Mutex
	bodies []string
	answer func(body string) (string, http.Header)
}

func (r *huntH2_2Subgraph) RoundTrip(req *http.Request) (*http.Response, error) {
	b, _ := io.ReadAll(req.Body)
	r.mu.Lock()
	r.bodies = append(r.bodies, string(b))
	r.mu.Unlock()
	out, h := r.answer(string(b))
	if h == nil {
		h = http.Header{}
	}
	h.Set("Content-Type", "application/json")
	return &http.Response{StatusCode: 200, Header: h, Body: io.NopCloser(bytes.NewBufferString(out)), Request: req}, nil
}

func huntH2_2Engine(t *testing.T, products, pricing http.RoundTripper) *ExecutionEngine {
	t.Helper()
	const supergraph = `
type Query { product: Product }
type Product { upc: String! price(currency: String = "USD"): String }
`
	const productsSDL = `
type Query { product: Product }
type Product @key(fields: "upc") { upc: String! }
`
	const pricingSDL = `
type Product @key(fields: "upc") { upc: String! price(currency: String = "USD"): String }
`
	schema, err := graphql.NewSchemaFromString(supergraph)
	require.NoError(t, err)
	keys := plan.FederationMetaData{Keys: plan.FederationFieldConfigurations{{TypeName: "Product", SelectionSet: "upc"}}}
	ds1 := mustGraphqlDataSourceConfiguration(t, "products",
		mustFactory(t, &http.Client{Transport: products}),
		&plan.DataSourceMetadata{
			RootNodes: []plan.TypeField{
				{TypeName: "Query", FieldNames: []string{"product"}},
				{TypeName: "Product", FieldNames: []string{"upc"}},
			},
			FederationMetaData: keys,
		},
		mustConfiguration(t, graphql_datasource.ConfigurationInput{
			Fetch:               &graphql_datasource.FetchConfiguration{URL: "https://products/", Method: "POST"},
			SchemaConfiguration: mustSchemaConfig(t, &graphql_datasource.FederationConfiguration{Enabled: true, ServiceSDL: productsSDL}, productsSDL),
		}),
	)
	ds2 := mustGraphqlDataSourceConfiguration(t, "pricing",
		mustFactory(t, &http.Client{Transport: pricing}),
		&plan.DataSourceMetadata{
			RootNodes:          []plan.TypeField{{TypeName: "Product", FieldNames: []string{"upc", "price"}}},
			FederationMetaData: keys,
		},
		mustConfiguration(t, graphql_datasource.ConfigurationInput{
			Fetch:               &graphql_datasource.FetchConfiguration{URL: "https://pricing/", Method: "POST"},
			SchemaConfiguration: mustSchemaConfig(t, &graphql_datasource.FederationConfiguration{Enabled: true, ServiceSDL: pricingSDL}, pricingSDL),
		}),
	)
	conf := NewConfiguration(schema)
	conf.SetDataSources([]plan.DataSource{ds1, ds2})
	conf.SetFieldConfigurations(plan.FieldConfigurations{
		{TypeName: "Product", FieldName: "price", Arguments: plan.ArgumentsConfigurations{
			{Name: "currency", SourceType: plan.FieldArgumentSource},
		}},
	})
	e, err := NewExecutionEngine(context.Background(), abstractlogger.Noop{}, conf, resolve.ResolverOptions{MaxConcurrency: 16})
	require.NoError(t, err)
	return e
}

// huntH2_2Pricing answers like a spec conforming subgraph whose data never changes, for
//
//	price(currency: String = "USD"): argument absent -> default "USD"; explicit null -> null reaches the resolver.
func huntH2_2Pricing(body string) (string, http.Header) {
	var req struct {
		Variables map[string]json.RawMessage `json:"variables"`
	}
	_ = json.Unmarshal([]byte(body), &req)
	var reps []json.RawMessage
	_ = json.Unmarshal(req.Variables["representations"], &reps)
	var cur json.RawMessage
	has := false
	for k, v := range req.Variables {
		if k != "representations" { // the only other variable is the one passed to currency
			cur, has = v, true
		}
	}
	price := ""
	switch {
	case !has:
		price = `"10 USD"`
	case string(cur) == "null":
		price = `"no price without a currency"`
	default:
		var c string
		_ = json.Unmarshal(cur, &c)
		price = `"10 ` + c + `"`
	}
	out := `{"data":{"_entities":[`
	for i := range reps {
		if i > 0 {
			out += ","
		}
		out += `{"__typename":"Product","price":` + price + `}`
	}
	return out + `]}}`, http.Header{"Cache-Control": []string{"public, max-age=60"}}
}

const huntH2_2Query = `query($c: String) { product { upc price(currency: $c) } }`

// huntH2_2Execute runs one request on a fresh engine; cache == nil means no cache attached.
func huntH2_2Execute(t *testing.T, cache *mapCache, variables string) (response string, pricingRequests []string) {
	t.Helper()
	products := &huntH2_2Subgraph{answer: func(string) (string, http.Header) {
		return `{"data":{"product":{"__typename":"Product","upc":"1"}}}`, nil
	}}
	pricing := &huntH2_2Subgraph{answer: huntH2_2Pricing}
	e := huntH2_2Engine(t, products, pricing)
	w := graphql.NewEngineResultWriter()
	req := &graphql.Request{Query: huntH2_2Query, Variables: []byte(variables)}
	var opts []ExecutionOptions
	if cache != nil {
		opts = append(opts, func(execCtx *internalExecutionContext) {
			execCtx.resolveContext.SetResponseCache(cache, time.Minute, func(err error) { t.Errorf("cache error: %v", err) })
		})
	}
	require.NoError(t, e.Execute(context.Background(), req, &w, opts...))
	return w.String(), pricing.bodies
}

func huntH2_2History(t *testing.T, history []string) {
	t.Helper()
	cache := newMapCache()
	for i, variables := range history {
		want, wantReqs := huntH2_2Execute(t, nil, variables)
		got, gotReqs := huntH2_2Execute(t, cache, variables)
		if got != want {
			t.Errorf("history %v, request %d: query %s variables %s\n observed with cache:    %s (requests to pricing: %v)\n expected (no cache):    %s (requests to pricing: %v)",
				history, i+1, huntH2_2Query, variables, got, gotReqs, want, wantReqs)
		}
	}
}

func TestHuntH2_2_OmittedThenNull(t *testing.T) {
	// 1st request leaves $c out (subgraph default "USD" applies, the entity is stored),
	// 2nd request sets $c to null: must answer like without a cache.
	huntH2_2History(t, []string{`{}`, `{"c":null}`})
}

func TestHuntH2_2_NullThenOmitted(t *testing.T) {
	huntH2_2History(t, []string{`{"c":null}`, `{}`})
}

// Control: passes on the unchanged code - a different non-null value has a different key, the same request hits.
func TestHuntH2_2_Control(t *testing.T) {
	huntH2_2History(t, []string{`{"c":"EUR"}`, `{}`, `{"c":"EUR"}`, `{}`})
	cache := newMapCache()
	_, first := huntH2_2Execute(t, cache, `{}`)
	_, second := huntH2_2Execute(t, cache, `{}`)
	require.Len(t, first, 1, "first request must reach the pricing subgraph")
	require.Len(t, second, 0, "the identical second request must be served from the cache")
}
