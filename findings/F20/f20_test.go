package subscription

// Demonstration for F20: ExecutorEngine.TerminateAllSubscriptions iterates the registry of running
// operations (subCancellations.cancellations) without holding its lock, while the goroutines of
// finishing query/mutation operations delete from that same map (under the lock).
//
// The tests drive the real UniversalProtocolHandler read loop and the real ExecutorEngine that its
// constructor builds. Only the outside world is faked:
//   - the transport client (a websocket connection) is a channel of client messages,
//   - the protocol is a minimal graphql-ws look-alike (it cannot be the real one: package websocket
//     imports this package), dispatching "start" to Engine.StartOperation and "connection_terminate"
//     to Engine.TerminateAllSubscriptions exactly like websocket.ProtocolGraphQLWSHandler.Handle,
//   - the executor pool hands out query executors that answer when the fake upstream answers.
//
// On the unchanged code the tests die with
//     fatal error: concurrent map iteration and map write
// (without -race) or fail with a DATA RACE report (with -race).

import (
	"context"
	"encoding/json"
	"fmt"
	"sync"
	"sync/atomic"
	"testing"
	"time"

	"github.com/wundergraph/graphql-go-tools/v2/pkg/ast"
	"github.com/wundergraph/graphql-go-tools/v2/pkg/engine/resolve"
)

// ---------------------------------------------------------------------------------------------
// fakes
// ---------------------------------------------------------------------------------------------

// f20Upstream stands for the data source behind the executor: every query blocks until the
// upstream answers.
type f20Upstream struct {
	answer chan struct{}
	once   sync.Once
}

func newF20Upstream() *f20Upstream { return &f20Upstream{answer: make(chan struct{})} }
func (u *f20Upstream) respond()    { u.once.Do(func() { close(u.answer) }) }

// f20Executor is a query executor (so StartOperation runs it in handleNonSubscriptionOperation).
type f20Executor struct {
	upstream *f20Upstream
	ctx      context.Context
}

func (e *f20Executor) Execute(writer resolve.SubscriptionResponseWriter) error {
	select {
	case <-e.upstream.answer:
	case <-time.After(20 * time.Second): // bounded: never hang the test
		return fmt.Errorf("f20: upstream never answered")
	}
	_, err := writer.Write([]byte(`{"data":{"hello":"world"}}`))
	return err
}
func (e *f20Executor) OperationType() ast.OperationType { return ast.OperationTypeQuery }
func (e *f20Executor) SetContext(ctx context.Context)   { e.ctx = ctx }
func (e *f20Executor) Reset()                           {}

type f20ExecutorPool struct {
	upstream *f20Upstream
	handed   atomic.Int64
	returned atomic.Int64
}

func (p *f20ExecutorPool) Get(_ []byte) (Executor, error) {
	p.handed.Add(1)
	return &f20Executor{upstream: p.upstream}, nil
}

func (p *f20ExecutorPool) Put(_ Executor) error {
	p.returned.Add(1)
	return nil
}

// f20Client is the transport client: messages written to toServer are what the websocket client
// sends; closing toServer is the client going away.
type f20Client struct {
	toServer  chan []byte
	connected atomic.Bool
}

func newF20Client(capacity int) *f20Client {
	c := &f20Client{toServer: make(chan []byte, capacity)}
	c.connected.Store(true)
	return c
}

func (c *f20Client) ReadBytesFromClient() ([]byte, error) {
	select {
	case msg, ok := <-c.toServer:
		if !ok {
			c.connected.Store(false)
			return nil, ErrTransportClientClosedConnection
		}
		return msg, nil
	case <-time.After(20 * time.Second): // bounded: never hang the test
		c.connected.Store(false)
		return nil, ErrTransportClientClosedConnection
	}
}
func (c *f20Client) WriteBytesToClient([]byte) error  { return nil }
func (c *f20Client) IsConnected() bool                { return c.connected.Load() }
func (c *f20Client) Disconnect() error                { c.connected.Store(false); return nil }
func (c *f20Client) DisconnectWithReason(_ any) error { return c.Disconnect() }

// f20EventHandler counts what the server would write back to the client.
type f20EventHandler struct {
	results    atomic.Int64
	errors     atomic.Int64
	terminated atomic.Int64
}

func (h *f20EventHandler) Emit(eventType EventType, _ string, _ []byte, _ error) {
	switch eventType {
	case EventTypeOnNonSubscriptionExecutionResult:
		h.results.Add(1)
	case EventTypeOnError, EventTypeOnDuplicatedSubscriberID, EventTypeOnConnectionError:
		h.errors.Add(1)
	case EventTypeOnConnectionTerminatedByServer:
		h.terminated.Add(1)
	}
}

// f20Protocol mirrors the dispatch of websocket.ProtocolGraphQLWSHandler.Handle for the three
// graphql-ws client messages that matter here.
type f20Protocol struct {
	events f20EventHandler
}

type f20Message struct {
	Type    string          `json:"type"`
	Id      string          `json:"id"`
	Payload json.RawMessage `json:"payload"`
}

func (p *f20Protocol) Handle(ctx context.Context, engine Engine, data []byte) error {
	var message f20Message
	if err := json.Unmarshal(data, &message); err != nil {
		return err
	}
	switch message.Type {
	case "start":
		return engine.StartOperation(ctx, message.Id, message.Payload, &p.events)
	case "stop":
		return engine.StopSubscription(message.Id, &p.events)
	case "connection_terminate":
		return engine.TerminateAllSubscriptions(&p.events)
	}
	return nil
}

func (p *f20Protocol) EventHandler() EventHandler { return &p.events }

// ---------------------------------------------------------------------------------------------
// one websocket connection
// ---------------------------------------------------------------------------------------------

type f20Mode int

const (
	// the client sends connection_terminate while the answers to its queries are arriving
	f20TerminateWhileFinishing f20Mode = iota
	// the client just goes away while the answers to its queries are arriving
	f20DisconnectWhileFinishing
	// control: the client waits for all its answers, then sends connection_terminate and leaves
	f20TerminateAfterAllAnswered
)

func f20WaitFor(t *testing.T, what string, cond func() bool) {
	t.Helper()
	deadline := time.Now().Add(15 * time.Second)
	for !cond() {
		if time.Now().After(deadline) {
			t.Fatalf("f20: timed out waiting for %s", what)
		}
		time.Sleep(50 * time.Microsecond)
	}
}

// f20Connection plays one client connection against the real handler and engine.
func f20Connection(t *testing.T, queries int, mode f20Mode) {
	t.Helper()

	upstream := newF20Upstream()
	defer upstream.respond()
	pool := &f20ExecutorPool{upstream: upstream}
	client := newF20Client(queries + 2)
	protocol := &f20Protocol{}

	handler, err := NewUniversalProtocolHandler(client, protocol, pool)
	if err != nil {
		t.Fatalf("f20: NewUniversalProtocolHandler: %v", err)
	}
	engine, ok := handler.engine.(*ExecutorEngine)
	if !ok {
		t.Fatalf("f20: expected the default *ExecutorEngine, got %T", handler.engine)
	}

	ctx, cancel := context.WithTimeout(context.Background(), 25*time.Second)
	defer cancel()

	readLoopDone := make(chan struct{})
	go func() {
		defer close(readLoopDone)
		handler.Handle(ctx) // the connection's read loop
	}()

	// The client sends its queries; each one becomes a goroutine waiting for the upstream.
	for i := 0; i < queries; i++ {
		client.toServer <- []byte(fmt.Sprintf(`{"type":"start","id":"%d","payload":{"query":"{hello}"}}`, i))
	}
	f20WaitFor(t, "all queries to be started", func() bool {
		return pool.handed.Load() == int64(queries) && engine.subCancellations.Len() == queries
	})

	switch mode {
	case f20TerminateWhileFinishing:
		client.toServer <- []byte(`{"type":"connection_terminate"}`)
		upstream.respond()
		close(client.toServer)
	case f20DisconnectWhileFinishing:
		close(client.toServer)
		upstream.respond()
	case f20TerminateAfterAllAnswered:
		upstream.respond()
		f20WaitFor(t, "all operations to be released", func() bool {
			return pool.returned.Load() == int64(queries) && engine.subCancellations.Len() == 0
		})
		client.toServer <- []byte(`{"type":"connection_terminate"}`)
		close(client.toServer)
	}

	select {
	case <-readLoopDone:
	case <-time.After(25 * time.Second):
		t.Fatalf("f20: read loop did not return")
	}
	f20WaitFor(t, "all executors to be returned to the pool", func() bool { return pool.returned.Load() == int64(queries) })

	if got := engine.subCancellations.Len(); got != 0 {
		t.Errorf("f20: %d operations still registered after the connection ended", got)
	}
	if got := protocol.events.results.Load(); got != int64(queries) {
		t.Errorf("f20: expected %d results, got %d", queries, got)
	}
	if got := protocol.events.errors.Load(); got != 0 {
		t.Errorf("f20: unexpected error events: %d", got)
	}
}

// f20Connections plays connection after connection for the given time budget.
func f20Connections(t *testing.T, mode f20Mode, budget time.Duration) {
	// The more operations are in flight when the connection is terminated, the longer the unlocked
	// iteration runs next to the deletes of the finishing operations (measured on 16 cores: 16 in
	// flight: no crash in 10 runs of 3 s, 32: 4/10, 128: 8/10, 256: 17/20, 512: 9/10).
	const queriesPerConnection = 256
	start := time.Now()
	connections := 0
	for time.Since(start) < budget && !t.Failed() {
		f20Connection(t, queriesPerConnection, mode)
		connections++
	}
	t.Logf("f20: %d connections with %d queries each survived", connections, queriesPerConnection)
}

// ---------------------------------------------------------------------------------------------
// tests
// ---------------------------------------------------------------------------------------------

// A client sends queries over the socket and then connection_terminate while they are finishing.
func TestVerifF20TerminateMessageWhileQueriesFinish(t *testing.T) {
	f20Connections(t, f20TerminateWhileFinishing, 5*time.Second)
}

// A client sends queries over the socket and then goes away while they are finishing
// (UniversalProtocolHandler.Handle terminates all operations when its read loop ends).
func TestVerifF20DisconnectWhileQueriesFinish(t *testing.T) {
	f20Connections(t, f20DisconnectWhileFinishing, 5*time.Second)
}

// Control: the same traffic, but the client waits for all its answers before it terminates, so
// TerminateAllSubscriptions finds nothing left to iterate over. Passes before and after the fix.
func TestVerifF20ControlTerminateAfterAllAnswered(t *testing.T) {
	f20Connections(t, f20TerminateAfterAllAnswered, 2*time.Second)
}
