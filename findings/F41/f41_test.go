// Copy to: execution/engine/  (package engine; uses the test helpers of that package)
//
//   cd execution && GOFLAGS= go test -vet=off -count=1 -run TestHuntH1_1 ./engine/
//
// Property C06: a request whose declared variable `$heroName: String!` has no value (and no
// default) must be rejected. ExecutionEngine.Execute only runs the variables validator when the
// raw variables start with the byte '{'. A request without "variables", with "variables": null,
// or with leading whitespace in front of the object therefore skips the check altogether and the
// operation is sent to the subgraph with the required variable missing.
package engine

import (
	"bytes"
	"context"
	"io"
	"net/http"
	"testing"

	"github.com/jensneuse/abstractlogger"
	"github.com/stretchr/testify/require"

	"github.com/wundergraph/graphql-go-tools/execution/graphql"
	"github.com/wundergraph/graphql-go-tools/v2/pkg/engine/datasource/graphql_datasource"
	"github.com/wundergraph/graphql-go-tools/v2/pkg/engine/plan"
	"github.com/wundergraph/graphql-go-tools/v2/pkg/engine/resolve"
)

type huntH1_1Result struct {
	err       error
	response  string
	forwarded []string // request bodies which reached the subgraph
}

func huntH1_1Exec(t *testing.T, variables []byte) huntH1_1Result {
	t.Helper()
	const sdl = `type Query { hero(name: String!): String }`
	schema, err := graphql.NewSchemaFromString(sdl)
	require.NoError(t, err)

	var res huntH1_1Result
	rt := testRoundTripper(func(r *http.Request) *http.Response {
		b, _ := io.ReadAll(r.Body)
		res.forwarded = append(res.forwarded, string(b))
		return &http.Response{StatusCode: 200, Body: io.NopCloser(bytes.NewBufferString(`{"data":{"hero":"Luke"}}`))}
	})
	ds := mustGraphqlDataSourceConfiguration(t, "id",
		mustFactory(t, &http.Client{Transport: rt}),
		&plan.DataSourceMetadata{RootNodes: []plan.TypeField{{TypeName: "Query", FieldNames: []string{"hero"}}}},
		mustConfiguration(t, graphql_datasource.ConfigurationInput{
			Fetch:               &graphql_datasource.FetchConfiguration{URL: "https://example.com/", Method: "POST"},
			SchemaConfiguration: mustSchemaConfig(t, nil, sdl),
		}),
	)
	conf := NewConfiguration(schema)
	conf.SetDataSources([]plan.DataSource{ds})
	conf.SetFieldConfigurations([]plan.FieldConfiguration{{
		TypeName: "Query", FieldName: "hero", Path: []string{"hero"},
		Arguments: []plan.ArgumentConfiguration{{Name: "name", SourceType: plan.FieldArgumentSource}},
	}})
	ctx, cancel := context.WithCancel(context.Background())
	defer cancel()
	engine, err := NewExecutionEngine(ctx, abstractlogger.Noop{}, conf, resolve.ResolverOptions{MaxConcurrency: 8})
	require.NoError(t, err)

	req := graphql.Request{
		OperationName: "MyHero",
		Query:         `query MyHero($heroName: String!){ hero(name: $heroName) }`,
		Variables:     variables,
	}
	w := graphql.NewEngineResultWriter()
	res.err = engine.Execute(context.Background(), &req, &w)
	res.response = w.String()
	return res
}

const huntH1_1Expected = `Variable "$heroName" of required type "String!" was not provided.`

// control: the same request with an (empty) variables object is rejected, a complete one is executed
func TestHuntH1_1_Control(t *testing.T) {
	r := huntH1_1Exec(t, []byte(`{}`))
	require.Error(t, r.err, "variables={} must be rejected")
	require.Equal(t, huntH1_1Expected, r.err.Error())
	require.Empty(t, r.forwarded, "nothing may be sent to the subgraph")

	r = huntH1_1Exec(t, []byte(`{"heroName":"Luke"}`))
	require.NoError(t, r.err)
	require.Equal(t, `{"data":{"hero":"Luke"}}`, r.response)
}

func TestHuntH1_1_RequiredVariableMissing(t *testing.T) {
	for _, c := range []struct {
		name      string
		variables []byte
	}{
		{"no variables in the request", nil},
		{"variables: null", []byte(`null`)},
		{"variables object with leading whitespace", []byte(" {}")},
		{"variables object with leading newline", []byte("\n{}")},
	} {
		t.Run(c.name, func(t *testing.T) {
			r := huntH1_1Exec(t, c.variables)
			if r.err == nil {
				t.Errorf("input: query MyHero($heroName: String!){ hero(name: $heroName) } with variables=%q\n"+
					"observed: accepted, response %s, forwarded to the subgraph: %v\n"+
					"expected: rejected with %q and nothing forwarded",
					c.variables, r.response, r.forwarded, huntH1_1Expected)
				return
			}
			if r.err.Error() != huntH1_1Expected {
				t.Errorf("variables=%q: observed error %q, expected %q", c.variables, r.err.Error(), huntH1_1Expected)
			}
			if len(r.forwarded) != 0 {
				t.Errorf("variables=%q: request reached the subgraph: %v", c.variables, r.forwarded)
			}
		})
	}
}

// the guard disables every check, not only the "required" one
func TestHuntH1_1_WrongKindBehindWhitespace(t *testing.T) {
	r := huntH1_1Exec(t, []byte(` {"heroName":5}`))
	if r.err == nil {
		t.Fatalf("input: variables=%q for $heroName: String!\nobserved: accepted, forwarded to the subgraph: %v\nexpected: rejected (String cannot represent a non string value)",
			` {"heroName":5}`, r.forwarded)
	}
}
