#!/bin/sh
# usage: confirm_seed.sh <worktree> <seeddir> <demo-target-dir-rel> <test-regex> <pkg-to-test-rel-to-v2>...
# Confirms: patch applies + builds; existing tests of the packages pass with it; demo fails with it and passes without.
wt="$1"; sd="$2"; tgt="$3"; rx="$4"; shift 4
cd "$wt" || exit 2
git checkout -q -- . ; git clean -fdq
git apply "$sd/patch.diff" || { echo "RESULT $sd: patch does not apply"; exit 1; }
cd "$wt/v2"
if ! GOFLAGS= go build ./pkg/... >/tmp/confirm_build.log 2>&1; then echo "RESULT $sd: build fails"; cd "$wt"; git checkout -q -- .; exit 1; fi
if ! GOFLAGS= go test -vet=off -count=1 "$@" >/tmp/confirm_tests.log 2>&1; then echo "RESULT $sd: existing tests FAIL with the change"; tail -5 /tmp/confirm_tests.log; cd "$wt"; git checkout -q -- .; git clean -fdq; exit 1; fi
cp "$sd/demo_test.go" "$wt/$tgt/zz_seed_demo_test.go"
pk="./$(echo "$tgt" | sed 's|^v2/||')/"
if GOFLAGS= go test -vet=off -count=1 -run "$rx" "$pk" >/tmp/confirm_demo1.log 2>&1; then with=pass; else with=fail; fi
cd "$wt"; git checkout -q -- .
cd "$wt/v2"
if GOFLAGS= go test -vet=off -count=1 -run "$rx" "$pk" >/tmp/confirm_demo2.log 2>&1; then without=pass; else without=fail; fi
cd "$wt"; git checkout -q -- . ; git clean -fdq
echo "RESULT $sd: builds, existing tests pass, demo with change: $with, demo without change: $without"
[ "$with" = fail ] && [ "$without" = pass ]
