#!/usr/bin/env python3
"""Regenerates /verif/MANIFEST.json from the table below (kept in one place so it stays valid)."""
import json, os, subprocess
V = os.path.dirname(os.path.dirname(os.path.abspath(__file__)))
props = [json.loads(l) for l in open(os.path.join(V, 'properties.jsonl'))]
ids = [p['id'] for p in props]

TECH = "contract-based deductive verification (weakest-precondition VCs over go/ssa of the real code, discharged by z3/cvc5)"
TRUST = ("Trusted: govc (self-written, unverified VC generator; guarded by the must-fail/must-pass self-test corpus), the SMT solvers, "
         "assumed contracts for code outside the repository (/verif/specs, listed in the evidence), machine assumption len<=2^50. ")

CLAIMED = {
 "C05": ("Deductive proof, for all inputs and all loop iterations, of contracts on the real lexer and tokenizer: representation invariant, in-bounds token references, progress/termination variants, no index/nil panic, and the token-level depth/field limit accounting (ghost counters). Parser and printer round trip are not covered.",
         "Not decided: print/parse round trip, parser totality beyond the tokenizer, stack depth."),
 "C02": ("Deductive proof on the renderer: scalar/enum kind checks of every leaf walker as functional contracts over an abstract JSON view (null bubbles iff non-nullable, wrong kind rejected, right kind accepted), path-stack safety (push/pop balanced on every path, no underflow), astjson callee preconditions (SetNull/SetValue need a non-empty path — the walkArray defect F2 was found by this obligation and fixed), null-bubbling guards (a list/object/item is nulled only if it is nullable, only in the pre-walk), plan read-only for package resolve (SSA scan).",
         "Not decided: byte-level validity of printed scalars, key-set equality through defer filters, walkObject body (assumed contract), end-to-end projection equality, termination of the tree recursion. Known finding F6 (Int accepts 1.5)."),
 "C06": ("Deductive proof of the per-level accept/reject guards of variables validation: required variable absent/null rejected, explicit null for a non-null input field rejected even with a default (defect F4/F5 found by this obligation and fixed), absent field with default accepted, list needs array, scalar kind table for String/Float/Boolean/ID/Int/enum/input object as iff-contracts over an abstract JSON view, errors are sticky, path stack restored, oneOf violations reported, content not echoed when disabled.",
         "Not decided: the induction that composes the per-level guards into accept<=>coercible for nested values (paper lemma), custom scalars, the walker. Known finding: Int accepts 1.5."),
 "C12": ("Typestate proof (for all inputs and, via the lock/flag discipline of DESIGN §2.7, all schedules) that every use of a subscription's writer happens inside one writeMu critical section that first observed removed == false (guarded-field obligations at every load; defect F8 in complete()/error() found by them and fixed), that removed is monotone, that close(completed) happens only in done(), under writeMu, with the close permission created by the winning CompareAndSwap and carried through removeSubscriptionLocked/detachTriggerLocked/closeSubs (closed exactly once), and that every updater callback runs under updater.mu after reading done == false.",
         "Not decided: delivered == filter(events) as sequences, content of each message, heartbeat timing; the WaitGroup fan-out of handleTriggerUpdate is an assumed contract. Interleavings are not explored."),
 "C13": ("Proof that registry maintenance and reporter counters move only under Resolver.mu (defect F9 in markTriggerInitialized found by this obligation and fixed), that every trigger cancel function obtained from a detached/emptied trigger is invoked, after the lock is released, on every path, that close permissions flow from removal to closeSubs without duplication (distinctness invariants through append), and that locks are balanced on every path.",
         "Not decided: the cardinality invariant (counts == map sizes), quiescence as a history property, start-once, trigger id hashing, goroutine leaks."),
 "C16": ("Deductive proof of the storability clause on caching.TTL (public, no refusal directive, s-maxage before max-age before default, positive lifetime, int32 seconds never overflow), of the cache-control lexer (bounds, termination) and of 'refusal directives are never lost / public is never invented' through parseIdent and parse (ghost flags).",
         "Not decided: transparency of hits over request histories; Loader.responseCache* functions (contracts pending); fieldNamesArgument is assumed (range-over-func)."),
 "C14": ("Request side: proved chain isFetchAuthorizedFromCache (functional contract with quantified loop invariant over the seeded deny map) -> isFetchAuthorized -> validatePreFetch -> prepareSingleFetch (denied => skipLoad) -> loadPhase (skipLoad => executeSourceLoad is not called), plus the decision key as an uninterpreted-hash term of all three components.",
         "Not decided: planner metadata (HasAuthorizationRule), entity/batch prepare variants, response-side nulling (pending), seeding completeness (pending)."),
 "C07": ("Guards proved on Loader.mergeResult for every path: merges/Set/taint happen only when the fetch did not fail (transport error, rejected, skipped, empty body); a transport error is reported; a fetch with an errored dependency is not prepared; loadPhase is reached only after a successful prepare.",
         "Not decided: liveness (returns promptly), byte-identity of the unaffected part, the HTTP client; error renderers are assumed effect summaries."),
 "C10": ("Deductive proof of the incremental-delivery protocol per frame and per scheduling step: every deferred frame moves the outstanding counter by +announced children -1 (error frames -1), prints exactly one completed entry for the current defer and exactly one hasNext equal to (outstanding != 0), announces exactly the live direct children it returns; the initial frame announces exactly the live top-level defers with hasNext iff there are any and nothing outside defer mode; a frame is rendered and flushed inside one critical section of the data lock (frames never interleave); a Sequence schedules only the subtrees pruned by what its parent announced, the top level only the tree pruned by the live top-level set with the counter starting at their number; the stream is terminated (Complete) on every exit after the initial flush; pruneDeadDefers/topDeferID functional contracts; and in postprocess: after buildDeferTree every descriptor that will be announced owns a fetch group (defect F19 - a pending id that is never completed - found as the missing plan invariant and fixed).",
         "Not decided: merge(initial, incrementals) == data(q without @defer) (relational), the tree-wide counting identity outstanding == |announced minus completed| under concurrent branches (paper lemma; assumed as protocol invariant where the counter arithmetic needs it), completeness of liveChildDescriptors, termination, normalization and planning of @defer. Side findings outside the decided part (recorded in DESIGN.md): an introspection field inside @defer nulls the response; a nested @defer under a mutation root field executes the mutation twice."),
 "C11": ("Deductive proof on both single flights (inbound requests and subgraph requests): eligibility (only queries, disable flags respected), the de-duplication key as a term over all its components (request id, variables hash, headers hash; data source id, input, headers hash) checked where the key reaches sync.Map.LoadOrStore, follower buffers (inbound: a private copy; subgraph: exactly the leader's published bytes or the leader's error), a follower sends nothing, and the close-once discipline as a linear ghost permission: created at the non-shared LoadOrStore, required and consumed at close(), never held by a follower, consumed on every leader path of ArenaResolveGraphQLResponse and loadByContext (defect F7 — double close after a late follower — found by the follower postcondition of GetOrCreate and fixed).",
         "Not decided: liveness/no goroutine blocked forever as a history property, equality with the un-deduplicated bytes (C01-level), lifetime of the shared buffer, panics inside the leader's work (a panicking leader never finishes), hash collisions. Interleavings are not explored."),
 "C19": ("Deductive proof of per-message step contracts of the graphql-transport-ws handler, valid for every pre-state and therefore for every client message sequence: no operation is handed to the engine before a successful connection_init; subscribe before init closes with 4401 and starts nothing; a second init closes with 4429 without a second ack; a rejected init closes with 4401 and leaves the state unchanged; unknown message types and JSON syntax errors close with 4400; the init time-out action closes with 4408; a duplicate operation id closes with 4409; only connection_init changes the initialised flag; ping/pong/complete never close. Event to message mapping of both protocols (data -> one next/data, error -> one error, completed -> one complete, result -> next/data then complete, nothing for other events, every message carries the event's id), graphql-ws message switch (only start starts, only stop stops), and in the engine: no executor is started for a duplicate id, a non-subscription operation emits exactly one terminal event, events carry the operation's id. Known finding F14: startSubscription keeps executing and emitting after the terminal error of an operation.",
         "Not decided: interleavings of the engine goroutine with client-initiated stop, heartbeat/time-out timing, the transport client, the read loop ending on disconnect. Composition of step contracts into a trace property is induction on the message sequence (paper argument)."),
 "C08": ("Lock discipline and phase order proved on the loader: preparePhase and mergePhase hold the data lock for all accesses to the shared tree (mutex typestate obligations at every call), the lock is released on every path, loadPhase and the cache flush run unlocked, merge happens after load in program order; Loader.dataBuffer is a stable field (package-wide SSA scan).",
         "Not decided: schedule tree shape (validateSchedule contracts pending), independence from completion order."),
}
NA = {
 "C20": "protobuf reflection driven data path: a contract would consist almost entirely of assumed contracts for protoreflect (it would prove a model); the consistency clause relates two different operations (relational), no per-function contract expresses it",
}
PENDING = "not claimed (yet): no contract within reach of the self-written verifier has been written and discharged for this property at this commit; see DESIGN.md §4 for the planned kernels"

hooks = subprocess.run(["git", "-C", "/repo", "log", "--format=%h %s"], capture_output=True, text=True).stdout.splitlines()
hook_commits = [l.split()[0] for l in hooks if l.split(' ', 1)[1].startswith("verif:")]

m = {"version": 1, "setup_cmd": "./setup.sh",
     "hooks": {"guard": "verif",
               "enable": "go build -tags verif ./... — contract files zz_contracts_verif.go are comment-only and compiled only with the tag; govc loads /repo with -tags verif",
               "baseline_off_cmd": "for m in execution v2; do (cd /repo/$m && go test -json -vet=off -count=1 -timeout 25m ./...); done",
               "source_commits": hook_commits, "add_only": True},
     "engines": [{"name": "govc", "path": "engine", "serves_properties": sorted(CLAIMED),
                  "kind_free_text": "self-written verification-condition generator over go/ssa of /repo (contracts as //@ comment blocks in build-tag-guarded files), obligations discharged by a z3 4.8.12 / z3 5.1.0 / cvc5 1.0 portfolio"}],
     "checks": [], "not_applicable": [],
     "notes": "All checks: ./check.sh <id> [quick|thorough]; self-test corpus: selftest/run.py; seeded changes: seeded/"}
for i in ids:
    if i in CLAIMED:
        text, nd = CLAIMED[i]
        m["checks"].append({"property_id": i, "quick_cmd": f"./check.sh {i} quick", "thorough_cmd": f"./check.sh {i} thorough",
                            "evidence_file": f"evidence/{i}.json", "replay_cmd_template": f"./bin/govc check {i} --replay {{path}}", "engine": "govc",
                            "level_claimed": {"category": "proof", "text": text, "design_ref": f"DESIGN.md §4 {i}"},
                            "level_note": TRUST + nd, "technique": TECH})
    else:
        m["not_applicable"].append({"property_id": i, "reason": NA.get(i, PENDING)})
json.dump(m, open(os.path.join(V, 'MANIFEST.json'), 'w'), indent=1)
print("claimed:", sorted(CLAIMED), "hooks:", hook_commits)
