#!/usr/bin/env python3
"""Audit: every contract in /repo's zz_contracts_verif.go files that is not marked `trusted` must be verified by
at least one property check (props/*.json units). A contract that nobody verifies is an unchecked assumption
for its callers. Interface methods (no body) can only be trusted. Prints the unverified ones, exit 1 if any."""
import json, os, re, glob, sys, subprocess
REPO = os.environ.get("VERIF_REPO", "/repo")
V = os.path.dirname(os.path.dirname(os.path.abspath(__file__)))
MOD = {"v2": "github.com/wundergraph/graphql-go-tools/v2", "execution": "github.com/wundergraph/graphql-go-tools/execution"}
units = []
for f in sorted(glob.glob(os.path.join(V, "props", "*.json"))):
    c = json.load(open(f))
    for u in c["units"]:
        for p in u["packages"]:
            units.append((c["id"], MOD[u["module"]] + "/" + p.lstrip("./"), re.compile(u.get("funcs") or ".")))
bad = []
n = ntrusted = 0
for cf in subprocess.run(["git", "-C", REPO, "ls-files", "*zz_contracts_verif.go"], capture_output=True, text=True).stdout.split():
    d = os.path.dirname(cf)
    mod = d.split("/")[0]
    pkg = MOD[mod] + d[len(mod):]
    cur = None
    contracts = {}
    for line in open(os.path.join(REPO, cf)):
        m = re.match(r"^//@ func (\S+)", line)
        if m:
            cur = m.group(1); contracts[cur] = False; continue
        if not line.startswith("//@"):
            cur = None
        if cur and re.match(r"^//@\s+trusted\b", line):
            contracts[cur] = True
    for k, trusted in contracts.items():
        n += 1
        if trusted:
            ntrusted += 1; continue
        full = pkg + "::" + k
        who = [pid for pid, up, rx in units if up == pkg and rx.search(full)]
        if not who:
            bad.append(full)
print("%d contracts, %d trusted (assumed), %d verified by some check, %d not verified by any check" % (n, ntrusted, n - ntrusted - len(bad), len(bad)))
for b in bad:
    print("  UNVERIFIED", b)
sys.exit(1 if bad else 0)
