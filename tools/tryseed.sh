#!/bin/sh
# usage: tryseed.sh <patch.diff> <prop> [<prop>...] : apply a seeded change to /repo, run the checks, undo.
patch="$1"; shift
cd /repo || exit 2
if [ -n "$(git status --porcelain)" ]; then echo "repo not clean"; exit 2; fi
git apply "$patch" || { echo "patch does not apply"; exit 2; }
for p in "$@"; do
  (cd /verif && ./bin/govc check "$p" --no-evidence 2>&1 | grep -E "VIOLATION|failed obligation|KNOWN|property|BROKEN" | sed 's/^/    /')
done
git checkout -- . ; git clean -fdq
