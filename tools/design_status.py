#!/usr/bin/env python3
# refreshes the fns / obligations columns of DESIGN.md §10 from evidence/<id>.json
import json,re
s=open('/verif/DESIGN.md').read()
def repl(m):
    pid=m.group(1)
    try: e=json.load(open(f'/verif/evidence/{pid}.json'))['coverage']
    except Exception: return m.group(0)
    fns=len(e.get('functions_proved') or [])+len(e.get('functions_failed') or [])
    return f"| {pid} |{m.group(2)}| {fns} | {e['obligations_generated']} |"
a=s.index('## 10. Status per property'); b=s.index('## 11. Defects found')
blk=re.sub(r'\| (C\d\d) \|([^|]*)\| \d+ \| \d+ \|',repl,s[a:b])
open('/verif/DESIGN.md','w').write(s[:a]+blk+s[b:])
