#!/bin/sh
# runs every claimed check (quick tier) and prints one line per property; exit 1 if any is not clean
cd "$(dirname "$0")/.." || exit 2
bad=0
for f in props/*.json; do
  id=$(basename "$f" .json)
  out=$(./check.sh "$id" quick 2>&1)
  rc=$?
  echo "$out" | tail -1
  if [ $rc -ne 0 ] || echo "$out" | grep -q "VIOLATION\|CHECK-BROKEN"; then bad=1; echo "   ^^^ NOT CLEAN (exit $rc)"; fi
done
exit $bad
